#!/bin/bash
# confirm_port.sh <ID-k> : confirm a re-ported seed (/tmp/port/out_<ID-k>.diff) against /repo HEAD and
# replace /verif/seeded/<ID-k>/patch.diff with it.
set -u
S=$1
P=/tmp/port/out_$S.diff
D=/verif/seeded/$S
WT=$(mktemp -d /tmp/cport_${S}_XXXX); rmdir $WT
git -C /repo worktree add -q --detach $WT HEAD || exit 2
cleanup() { git -C /repo worktree remove --force $WT 2>/dev/null; rm -rf $WT; }
trap cleanup EXIT
cd $WT
PYTHONPATH=$WT timeout 120 /venv/bin/python $D/demo.py >/dev/null 2>&1; CLEAN=$?
git apply $P 2>/dev/null || { echo "$S: PORT DOES NOT APPLY"; exit 1; }
PYTHONPATH=$WT timeout 120 /venv/bin/python $D/demo.py >/dev/null 2>&1; CHANGED=$?
MIROS_REPO=$WT /verif/tools/baseline.py > /tmp/cport_$S.tests 2>&1; TESTS=$?
echo "$S: demo clean rc=$CLEAN, demo changed rc=$CHANGED, tests rc=$TESTS ($(tail -1 /tmp/cport_$S.tests))"
if [ $CLEAN -eq 0 ] && [ $CHANGED -ne 0 ] && [ $TESTS -eq 0 ]; then
  git diff HEAD > $D/patch.diff
  /venv/bin/python - $D/meta.json <<'PY'
import json, sys
m = json.load(open(sys.argv[1]))
m["ported"] = "re-created by hand against the tree after later fix: commits (the original patch no longer applied); confirmed again with tools/confirm_port.sh"
json.dump(m, open(sys.argv[1], "w"), indent=1)
PY
  echo "$S: PORT KEPT"
else
  echo "$S: PORT NOT KEPT"
fi
rm -f /tmp/cport_$S.tests
