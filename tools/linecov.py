#!/venv/bin/python
"""linecov.py <ID>...: run the quick tier of the given checks in this process with sys.monitoring
line events on /repo/miros/*.py; print, per file, the executable lines never executed.
A generator-gap finder, not part of any registered check."""
import os, sys, dis, types, json
sys.path.insert(0, os.path.dirname(os.path.dirname(os.path.abspath(__file__))))
os.environ.setdefault("VERIF_NO_EVIDENCE", "1")
os.environ.setdefault("PYTHONHASHSEED", "0")
from harness import common
common.use_repo()
from harness import run as runner

ROOT = os.path.realpath(common.REPO) + "/miros/"
hit = {}
mon = sys.monitoring
TOOL = 3
mon.use_tool_id(TOOL, "vf-linecov")


def on_line(code, line):
  fn = code.co_filename
  if fn.startswith(ROOT):
    hit.setdefault(fn, set()).add(line)
  return mon.DISABLE      # per (code, line): the first hit is all we need


mon.register_callback(TOOL, mon.events.LINE, on_line)
mon.set_events(TOOL, mon.events.LINE)

for pid in sys.argv[1:]:
  prop = runner.load_prop(pid)
  stats, failures = prop.run_once(os.environ.get("TIER", "quick"), common.seed_value())
  print("%s: %d cases, %d failures" % (pid, stats.evaluations, len(failures)), file=sys.stderr)
mon.set_events(TOOL, 0)


def executable_lines(path):
  src = open(path).read()
  top = compile(src, path, "exec")
  lines = set()
  stack = [top]
  while stack:
    c = stack.pop()
    for _, _, ln in c.co_lines():
      if ln is not None:
        lines.add(ln)
    for k in c.co_consts:
      if isinstance(k, types.CodeType):
        stack.append(k)
  return lines


def ranges(nums):
  out, start, prev = [], None, None
  for n in sorted(nums):
    if start is None:
      start = prev = n
    elif n == prev + 1:
      prev = n
    else:
      out.append((start, prev)); start = prev = n
  if start is not None:
    out.append((start, prev))
  return ["%d" % a if a == b else "%d-%d" % (a, b) for a, b in out]


res = {}
for name in sorted(os.listdir(ROOT)):
  if not name.endswith(".py"):
    continue
  path = ROOT + name
  ex = executable_lines(path)
  h = hit.get(path, set())
  miss = ex - h
  res[name] = sorted(miss)
  print("%s: %d/%d executable lines hit; missed: %s" % (name, len(ex & h), len(ex), " ".join(ranges(miss))))
out = os.environ.get("LINECOV_OUT")
if out:
  json.dump({k: v for k, v in res.items()}, open(out, "w"))
os._exit(0)
