#!/venv/bin/python
"""Print the prompt given to a seeding sub-agent for one property (text of the property only)."""
import sys, json
pid = sys.argv[1]
n = sys.argv[2] if len(sys.argv) > 2 else "2"
sfx = sys.argv[3] if len(sys.argv) > 3 else ""
for l in open('/verif/properties.jsonl'):
  p = json.loads(l)
  if p['id'] == pid:
    break
import glob, os
tried = []
for m in sorted(glob.glob('/verif/seeded/%s-*/meta.json' % pid)):
  try:
    tried.append(json.load(open(m)).get('summary') or '')
  except Exception:
    pass
ALREADY = ""
if tried and os.environ.get("SEED_ROUND2"):
  ALREADY = "\nOther developers have ALREADY tried the following changes for this property; do NOT repeat them or close variants of them - find different root causes, in different functions or mechanisms where you can:\n" + "\n".join("  - " + t for t in tried if t) + "\n"
print(f"""You are helping to evaluate a verification effort by playing the role of a developer who introduces a subtle regression.

Project: aleph2c/miros, a Python UML statechart library (hierarchical state machine event processor, threaded active objects, pub-sub fabric, timed events). You have your OWN scratch git worktree of it at /tmp/seed/wt_{pid}{sfx} . Work ONLY inside /tmp/seed/wt_{pid}{sfx} and write your deliverables to /tmp/seed/out_{pid}{sfx}/ . Do NOT read or touch /repo or /verif (they are off limits; your work must be independent of them). There is no network.

The property that should hold for this library ({p['id']}: {p['title']}):

  {p['statement']}

  It quantifies over: {p['quantifier']['text']}

{ALREADY}
Your task: produce {n} DIFFERENT changes (different root causes, each a separate patch) to the library source under /tmp/seed/wt_{pid}{sfx}/miros/ such that, for each change:
  1. the library still imports/compiles and the existing test suite still passes:
       cd /tmp/seed/wt_{pid}{sfx} && PYTHONPATH=/tmp/seed/wt_{pid}{sfx} /venv/bin/python -m pytest -q -p no:cacheprovider --timeout=900
     (test/crypto_test.py::test_cryptography fails on the untouched tree too and comprehensive_hsm_test test_group_4 / test_group_14 are known flaky; ignore those three. Everything else that passes on the untouched tree must still pass. The suite takes about a minute.)
  2. the property above is really broken by the change: some input / history / schedule exists on which the changed library violates the statement;
  3. the breakage needs something SPECIFIC to manifest - a particular multi-step sequence of operations, an unusual input or chart shape, a particular depth, a particular interleaving, or two cooperating edits that each look fine alone - and is NOT something that ordinary simple use would expose at once. Make it look like a plausible slip a maintainer could make (an off-by-one, a wrong comparison, a dropped step in one branch, a stale variable, a reordered pair of statements, an over-eager optimisation), not sabotage, and keep it small.
  4. a demonstration: a small standalone Python program demo_<k>.py (no pytest needed; run as: PYTHONPATH=<tree> /venv/bin/python demo_<k>.py) that uses only the public behaviour of the library, exits 0 on the untouched tree and exits non-zero (with a short message saying what went wrong) on the changed tree.

Deliverables in /tmp/seed/out_{pid}{sfx}/ for k = 1..{n}:
  patch_<k>.diff   (output of `git -C /tmp/seed/wt_{pid}{sfx} diff` for change k alone, relative to the untouched HEAD; each patch must apply on its own to a clean tree with `git apply`)
  demo_<k>.py
  meta_<k>.json    with keys: property (\"{pid}\"), summary (one sentence: what was changed), needs (what specific condition is required for the breakage to manifest), ran (the commands you ran to confirm: tests pass with the change, demo fails with the change, demo passes without it)

Procedure per change: edit, run the test suite, run the demo against the changed tree (must fail), save the diff, then `git -C /tmp/seed/wt_{pid}{sfx} checkout -- .` to restore and run the demo against the clean tree (must pass). Leave the worktree clean (no uncommitted changes) when you finish. Use /venv/bin/python (Python 3.12). Be careful with anything that can loop forever: run demos under `timeout 60`.

Final answer: a short list of the changes you produced and the result of each confirmation step. Be honest if you could not produce one.""")
