#!/bin/bash
# try_round1.sh <suffix> <ID>... : like try_round.sh for rounds that produced ONE patch per property
SFX=$1; shift
for id in "$@"; do
  f=/tmp/seed/out_${id}${SFX}/patch_1.diff
  [ -f $f ] || { echo "== $id$SFX-1: no patch"; continue; }
  echo "== $id$SFX-1: $(python3-vt -c "import json;print((json.load(open('/tmp/seed/out_${id}${SFX}/meta_1.json')).get('summary') or '')[:140])" 2>/dev/null)"
  /verif/tools/try_seed.sh $f $id 2>&1 | grep -E "^(failure|C[0-9]+ (quick|thorough)|patch failed|HARNESS)" | tail -1 | cut -c1-220
done
