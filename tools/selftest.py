#!/venv/bin/python
"""Sensitivity self-test: apply each catalogued mutation to a scratch copy of /repo/miros,
run the quick check of the properties it should break (import path pointed at the copy),
expect exit 1; remove the copy.  Not a manifest check.

usage: selftest.py [name-substring ...]   (no args: all mutants)
       selftest.py --seeded               (also run /verif/seeded/*/patch.diff)
"""
import os, sys, json, glob, shutil, subprocess, tempfile
from concurrent.futures import ThreadPoolExecutor
HERE = os.path.dirname(os.path.abspath(__file__))
VERIF = os.path.dirname(HERE)
sys.path.insert(0, HERE)
from mutants import MUTANTS


def run_mutant(m):
  name, props, file, old, new = m
  d = tempfile.mkdtemp(prefix="vfmut_")
  try:
    shutil.copytree("/repo/miros", os.path.join(d, "miros"))
    p = os.path.join(d, file)
    s = open(p).read()
    if s.count(old) != 1:
      return name, [("-", "MUTATION DOES NOT APPLY (count=%d)" % s.count(old))]
    open(p, "w").write(s.replace(old, new))
    out = []
    for pid in props:
      env = dict(os.environ, MIROS_REPO=d, PYTHONHASHSEED="0", VERIF_NO_EVIDENCE="1")
      r = subprocess.run(["/venv/bin/python", "-m", "harness.run", pid, "--tier", "quick"],
                         cwd=VERIF, env=env, stdout=subprocess.PIPE, stderr=subprocess.STDOUT, timeout=1800)
      txt = r.stdout.decode("utf-8", "replace")
      fl = [l for l in txt.splitlines() if l.startswith("failure:")]
      out.append((pid, "rc=%d %s" % (r.returncode, fl[0][:160] if fl else txt.strip().splitlines()[-1][:160])))
    return name, out
  finally:
    shutil.rmtree(d, ignore_errors=True)


def run_patch(path, props, tier="quick"):
  d = tempfile.mkdtemp(prefix="vfseed_")
  try:
    subprocess.run("git -C /repo archive HEAD miros | tar -x -C %s" % d, shell=True, check=True)
    # working-tree state of /repo may differ from HEAD; copy it
    shutil.rmtree(os.path.join(d, "miros")); shutil.copytree("/repo/miros", os.path.join(d, "miros"))
    r = subprocess.run(["git", "apply", "--unsafe-paths", "--directory", d, path], cwd=d, stdout=subprocess.PIPE, stderr=subprocess.STDOUT)
    if r.returncode != 0:
      r = subprocess.run(["patch", "-p1", "-d", d, "-i", path], stdout=subprocess.PIPE, stderr=subprocess.STDOUT)
      if r.returncode != 0:
        return path, [("-", "PATCH DOES NOT APPLY: " + r.stdout.decode()[-200:])]
    out = []
    for pid in props:
      env = dict(os.environ, MIROS_REPO=d, PYTHONHASHSEED="0", VERIF_NO_EVIDENCE="1")
      r = subprocess.run(["/venv/bin/python", "-m", "harness.run", pid, "--tier", tier],
                         cwd=VERIF, env=env, stdout=subprocess.PIPE, stderr=subprocess.STDOUT, timeout=7200)
      txt = r.stdout.decode("utf-8", "replace")
      fl = [l for l in txt.splitlines() if l.startswith("failure:")]
      out.append((pid, "rc=%d %s" % (r.returncode, fl[0][:160] if fl else txt.strip().splitlines()[-1][:160])))
    return path, out
  finally:
    shutil.rmtree(d, ignore_errors=True)


if __name__ == "__main__":
  args = sys.argv[1:]
  jobs = []
  with ThreadPoolExecutor(8) as ex:
    if "--seeded" in args:
      args.remove("--seeded")
      for meta in sorted(glob.glob(os.path.join(VERIF, "seeded", "*", "meta.json"))):
        m = json.load(open(meta))
        if args and not any(a in meta for a in args):
          continue
        props = m.get("checks") or [m["property"]]
        jobs.append(ex.submit(run_patch, os.path.join(os.path.dirname(meta), "patch.diff"), props,
                              m.get("tier", "quick")))
    else:
      for m in MUTANTS:
        if args and not any(a in m[0] for a in args):
          continue
        jobs.append(ex.submit(run_mutant, m))
    bad = 0
    for j in jobs:
      name, out = j.result()
      for pid, res in out:
        ok = res.startswith("rc=1")
        bad += 0 if ok else 1
        print("%-8s %-45s %s %s" % ("CAUGHT" if ok else "MISSED", os.path.relpath(name, VERIF) if name.startswith("/") else name, pid, res))
  sys.exit(1 if bad else 0)
