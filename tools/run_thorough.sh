#!/bin/bash
# run every registered thorough check, one after the other (each uses all cores); one line each
cd "$(dirname "$0")/.."
ids=$(python3-vt -c "import json; print(' '.join(c['property_id'] for c in json.load(open('MANIFEST.json'))['checks']))")
for id in ${@:-$ids}; do
  t0=$(date +%s)
  out=$(VERIF_NO_EVIDENCE=${VERIF_NO_EVIDENCE:-1} PYTHONHASHSEED=0 /venv/bin/python -m harness.run $id --tier thorough 2>&1); rc=$?
  echo "rc=$rc $(( $(date +%s) - t0 ))s $(echo "$out" | grep -E "^(C[0-9]+ thorough|failure|VIOLATION|HARNESS)" | head -3 | tr '\n' ' ' | cut -c1-300)"
done
