#!/bin/bash
# try_round.sh <suffix> <ID>... : try both patches of each round-<suffix> seed output against the property's own check
SFX=$1; shift
for id in "$@"; do
  for k in 1 2; do
    f=/tmp/seed/out_${id}${SFX}/patch_$k.diff
    [ -f $f ] || { echo "== $id$SFX-$k: no patch"; continue; }
    echo "== $id$SFX-$k: $(python3-vt -c "import json;print((json.load(open('/tmp/seed/out_${id}${SFX}/meta_$k.json')).get('summary') or '')[:150])" 2>/dev/null)"
    /verif/tools/try_seed.sh $f $id 2>&1 | grep -E "^(failure|C[0-9]+ (quick|thorough)|patch failed|HARNESS)" | tail -1 | cut -c1-220
  done
done
