#!/opt/veriftools/pyvenv/bin/python
"""Regenerate /verif/MANIFEST.json from harness/registry.py and validate it."""
import os, sys, json
sys.path.insert(0, os.path.dirname(os.path.dirname(os.path.abspath(__file__))))
from harness import registry

VERIF = os.path.dirname(os.path.dirname(os.path.abspath(__file__)))
PY = "PYTHONHASHSEED=0 /venv/bin/python -m harness.run"
checks = []
for pid, m in sorted(registry.CLAIMED.items()):
  checks.append({
    "property_id": pid,
    "quick_cmd": "%s %s --tier quick" % (PY, pid),
    "thorough_cmd": "%s %s --tier thorough" % (PY, pid),
    "evidence_file": "/verif/evidence/%s.json" % pid,
    "replay_cmd_template": "%s %s --replay {path}" % (PY, pid),
    "engine": m.get("engine", "hypothesis-harness"),
    "level_claimed": {"category": "exploration", "text": m["text"], "design_ref": m.get("design_ref", "DESIGN.md section 4, " + pid)},
    "level_note": m["note"],
    "technique": m["technique"],
  })
ids = [json.loads(l)["id"] for l in open(os.path.join(VERIF, "properties.jsonl"))]
na = [{"property_id": p, "reason": registry.NOT_APPLICABLE.get(p, "check not built yet in this session; no claim is made")}
      for p in ids if p not in registry.CLAIMED]
man = {
  "version": 1,
  "setup_cmd": "/venv/bin/python -c 'import hypothesis' 2>/dev/null || /venv/bin/pip install --no-index --find-links /opt/veriftools/wheels hypothesis",
  "hooks": {
    "guard": "ALEPH2C_MIROS_VERIF",
    "enable": "none needed: all instrumentation is done from the harness side (subclassing, module-attribute substitution after import); /repo carries no hook code",
    "baseline_off_cmd": "/venv/bin/python /verif/tools/baseline.py",
    "source_commits": [],
    "add_only": True,
  },
  "engines": registry.ENGINES,
  "checks": checks,
  "notes": registry.NOTES,
  "not_applicable": na,
}
path = os.path.join(VERIF, "MANIFEST.json")
json.dump(man, open(path, "w"), indent=1)
open(path, "a").write("\n")
try:
  import jsonschema
  jsonschema.validate(man, json.load(open("/root/.vp/MANIFEST.schema.json")))
  print("MANIFEST valid: %d checks, %d not claimed" % (len(checks), len(na)))
except ImportError:
  print("MANIFEST written (jsonschema not importable here): %d checks" % len(checks))
