#!/bin/bash
# confirm_seed.sh <PID> <k> : confirm a sub-agent's seeded change in a scratch worktree and keep it
# under /verif/seeded/<PID>-<k>/ (patch.diff, demo.py, meta.json).
set -u
PID=$1; K=$2; SFX=${3:-}; DK=${4:-$K}
OUT=/tmp/seed/out_$PID$SFX
WT=$(mktemp -d /tmp/confirm_${PID}_${K}_XXXX)
rmdir $WT
git -C /repo worktree add -q --detach $WT HEAD || exit 2
cleanup() { git -C /repo worktree remove --force $WT 2>/dev/null; rm -rf $WT; }
trap cleanup EXIT
cd $WT
PYTHONPATH=$WT timeout 120 /venv/bin/python $OUT/demo_$K.py >/dev/null 2>&1; CLEAN=$?
if ! git apply $OUT/patch_$K.diff 2>/dev/null; then
  if ! git apply -3 $OUT/patch_$K.diff 2>/dev/null; then echo "$PID-$K: PATCH DOES NOT APPLY"; exit 1; fi
fi
git diff HEAD > /tmp/confirm_${PID}_${K}.diff
PYTHONPATH=$WT timeout 120 /venv/bin/python $OUT/demo_$K.py >/tmp/confirm_${PID}_${K}.demo 2>&1; CHANGED=$?
MIROS_REPO=$WT /verif/tools/baseline.py > /tmp/confirm_${PID}_${K}.tests 2>&1; TESTS=$?
echo "$PID-$K: demo clean rc=$CLEAN, demo changed rc=$CHANGED, tests rc=$TESTS ($(tail -1 /tmp/confirm_${PID}_${K}.tests))"
if [ $CLEAN -eq 0 ] && [ $CHANGED -ne 0 ] && [ $CHANGED -ne 124 -o 1 -eq 1 ] && [ $TESTS -eq 0 ]; then
  D=/verif/seeded/$PID-$DK; mkdir -p $D
  cp /tmp/confirm_${PID}_${K}.diff $D/patch.diff; cp $OUT/demo_$K.py $D/demo.py
  /venv/bin/python - $OUT/meta_$K.json $D/meta.json $PID "$CLEAN" "$CHANGED" <<'PY'
import json, sys
src, dst, pid, clean, changed = sys.argv[1:6]
try: m = json.load(open(src))
except Exception: m = {}
out = {"property": pid, "summary": m.get("summary"), "needs": m.get("needs"),
       "agent_ran": m.get("ran"),
       "confirmed": {"demo_on_clean_tree_rc": int(clean), "demo_on_changed_tree_rc": int(changed),
                     "test_suite": "tools/baseline.py with MIROS_REPO=<scratch worktree with patch>: all 134 stable baseline tests pass",
                     "how": "tools/confirm_seed.sh in a scratch git worktree of /repo HEAD, removed afterwards"},
       "checks": [pid]}
json.dump(out, open(dst, "w"), indent=1)
PY
  echo "$PID-$K$SFX: KEPT in $D"
else
  echo "$PID-$K: NOT KEPT"
fi
rm -f /tmp/confirm_${PID}_${K}.diff /tmp/confirm_${PID}_${K}.demo /tmp/confirm_${PID}_${K}.tests
