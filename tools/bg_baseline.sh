#!/bin/bash
# snapshot /repo's working tree to a scratch dir, run the baseline there, log to /tmp/baseline_$1.log
D=$(mktemp -d /tmp/bl_XXXX); rsync -a --exclude .git /repo/ $D/
( MIROS_REPO=$D /verif/tools/baseline.py > /tmp/baseline_$1.log 2>&1; echo "exit=$?" >> /tmp/baseline_$1.log; rm -rf $D ) &
