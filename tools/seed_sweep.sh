#!/bin/bash
# seed_sweep.sh <from> <to> [tier]: run every registered check at several VERIF_SEED values on the
# tree as it is; print only the runs that did not exit 0 (false-alarm hunt).  Evidence is not written.
cd "$(dirname "$0")/.."
TIER=${3:-quick}
ids=${IDS:-}
[ -n "$ids" ] || ids=$(python3-vt -c "import json; print(' '.join(c['property_id'] for c in json.load(open('MANIFEST.json'))['checks']))")
for seed in $(seq $1 $2); do
  for id in $ids; do
    ( out=$(VERIF_SEED=$seed VERIF_NO_EVIDENCE=1 PYTHONHASHSEED=0 /venv/bin/python -m harness.run $id --tier $TIER 2>&1); rc=$?
      if [ $rc -ne 0 ]; then echo "seed=$seed $id rc=$rc"; echo "$out" | grep -E "^(failure|VIOLATION|HARNESS|Traceback|  File)" | tail -8; fi ) &
    while [ $(jobs -r | wc -l) -ge ${JOBS:-10} ]; do sleep 0.5; done
  done
  wait
  echo "seed $seed done"
done
