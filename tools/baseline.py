#!/venv/bin/python
"""Run aleph2c/miros' own test suite (guard OFF) and compare with /root/.vp/BASELINE.json.

Exit 0 iff every test in stable_pass passed."""
import os, sys, json, subprocess, tempfile
import xml.etree.ElementTree as ET

repo = os.environ.get("MIROS_REPO", "/repo")
base = json.load(open("/root/.vp/BASELINE.json")) if os.path.exists("/root/.vp/BASELINE.json") else None
fd, xml = tempfile.mkstemp(suffix=".xml"); os.close(fd)
env = dict(os.environ); env.pop("ALEPH2C_MIROS_VERIF", None)
cmd = ["/venv/bin/python", "-m", "pytest", "-ra", "-q", "-p", "no:cacheprovider", "--timeout=900",
       "--continue-on-collection-errors", "--junitxml=" + xml]
p = subprocess.run(cmd, cwd=repo, env=env, stdout=subprocess.PIPE, stderr=subprocess.STDOUT)
passed = set()
for tc in ET.parse(xml).getroot().iter("testcase"):
  if not any(ch.tag in ("failure", "error", "skipped") for ch in tc):
    passed.add("%s::%s" % (tc.get("classname"), tc.get("name")))
os.unlink(xml)
print(p.stdout.decode("utf-8", "replace")[-600:])
if base is None:
  print("passed: %d (no baseline file to compare)" % len(passed)); sys.exit(0)
missing = [t for t in base["stable_pass"] if t not in passed]
# sleep-based tests can flake under load: re-run each missing test alone, twice at most
for t in list(missing):
  mod, name = t.split("::")
  target = mod.replace(".", "/") + ".py::" + name
  for _ in range(2):
    r = subprocess.run(["/venv/bin/python", "-m", "pytest", "-q", "-p", "no:cacheprovider", "--timeout=900", target],
                       cwd=repo, env=env, stdout=subprocess.PIPE, stderr=subprocess.STDOUT)
    if r.returncode == 0:
      print("re-run alone passed: %s" % t)
      missing.remove(t)
      break
print("passed %d; baseline stable %d; missing from baseline: %s" % (len(passed), len(base["stable_pass"]), missing))
sys.exit(1 if missing else 0)
