#!/bin/bash
# try_seed.sh <patchfile> <CHECK>... : run quick checks against a scratch copy of /repo/miros with the patch
P=$1; shift
D=$(mktemp -d); cp -r /repo/miros $D/
(cd $D && patch -p1 -s < $P) || { echo "patch failed"; rm -rf $D; exit 2; }
for c in "$@"; do
  (cd /verif && MIROS_REPO=$D VERIF_NO_EVIDENCE=1 PYTHONHASHSEED=0 /venv/bin/python -m harness.run $c --tier ${TIER:-quick} 2>&1 | grep -E "^(C[0-9]+ (quick|thorough)|failure|KNOWN|harness)" | cut -c1-300)
done
rm -rf $D
