#!/bin/bash
# run every registered quick (or $1) check in parallel, print one line each
TIER=${1:-quick}
cd /verif
ids=$(python3-vt -c "import json; print(' '.join(c['property_id'] for c in json.load(open('MANIFEST.json'))['checks']))")
for id in $ids; do
  ( out=$(PYTHONHASHSEED=0 /venv/bin/python -m harness.run $id --tier $TIER 2>&1); echo "rc=$? $(echo "$out" | grep -E "^(C[0-9]+ |VIOLATION|KNOWN|HARNESS)" | tr '\n' ' ')" ) &
  while [ $(jobs -r | wc -l) -ge ${JOBS:-8} ]; do sleep 0.5; done
done
wait
