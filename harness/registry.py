"""What MANIFEST.json claims, per property.  tools/gen_manifest.py turns this into the manifest."""

ENGINES = [
  {"name": "detsched", "path": "/verif/harness/detsched.py", "serves_properties": [],
   "kind_free_text": "deterministic scheduler: baton-passing real threads, pre-emption at source-line or "
                     "bytecode granularity, virtual threading/queue/time primitives, schedules as generated values, "
                     "exact deadlock detection, virtual clock"},
  {"name": "hypothesis-harness", "path": "/verif/harness",
   "serves_properties": [],
   "kind_free_text": "Hypothesis-driven generated-input search against explicit oracles (reference "
                     "model, model deque, differential, metamorphic); one module per property under "
                     "harness/props; bounded-exhaustive enumeration of small shapes in thorough tiers"},
]

NOTES = ("All checks: python -m harness.run <ID> --tier quick|thorough (VERIF_SEED honoured). "
         "Exit 2 = harness error, never a verdict. Saved shrunk failures are replayed first "
         "(regressions/<ID>-*.json). known_findings.json lists recorded and fixed defects.")

_CHART = ("reference model of UML/Samek semantics (harness/refmodel.py) as oracle over "
          "Hypothesis-generated charts, start states and event lists")

CLAIMED = {
  "C01": {
    "technique": "property-based testing: generated charts vs reference model (Hypothesis + bounded-exhaustive small forests)",
    "text": "Exploration: thousands of generated chart shapes (depth to 13, multi-level initial transitions) "
            "x hosts x event lists compared step by step with an independent reference model; thorough "
            "enumerates every forest of <=4 states x init assignment x (start,S,T). Right level because the "
            "property quantifies over all charts and the oracle is exact and cheap.",
    "note": "Trusts the 150-line reference model and the handler-side action log; absence is not shown.",
  },
  "C02": {
    "technique": "property-based testing: generated reactions (handle/trans/decline/guard) vs reference model",
    "text": "Exploration: offer path and no-side-effect rule checked on every step of generated charts "
            "and event lists against the reference model, across four hosts and both decoration styles.",
    "note": "Trusts the reference model; processor-internal probes (EMPTY/SEARCH) are not treated as offers.",
  },
  "C03": {
    "technique": "property-based testing: generated charts/start states vs reference model (+ exhaustive forests <=5)",
    "text": "Exploration: start_at on every kind of host for generated charts; thorough enumerates all "
            "forests of <=5 states x every init assignment x every start state.",
    "note": "Trusts the reference model and handler-side logs.",
  },
}

def _c(pid, technique, text, note):
  CLAIMED[pid] = {"technique": technique, "text": text, "note": note}

_c("C14", "model-based testing: generated operation histories vs model deque + reference chart model",
   "Exploration: generated post/next_rtc/complete_circuit histories (handlers post from their clauses, same Event "
   "object posted twice, long circuits of several hundred events) compared step by step with a model deque.",
   "Trusts the model deque, the reference chart model and the per-step observation (wrapped dispatch).")
_c("C15", "model-based testing: generated defer/recall histories vs model deque + defer list",
   "Exploration: generated histories with defer/recall from outside and inside handlers; recall results, identity "
   "and later dispatch order compared with the model.",
   "Trusts the model; histories stay below queue capacity.")
_c("C16", "model-based testing at real capacity: prefix re-execution + drain for queued charts; op histories on LockingDeque with a non-blocking token queue",
   "Exploration: overflow behaviour at the shipped capacity (pre-fill 497..500) for HsmWithQueues (black-box, by "
   "draining a re-executed prefix) and LockingDeque (popleft/len/qsize), bound, placement, displacement of exactly "
   "one old item, token count, clear, would-block detection.",
   "Which old item is displaced is left open. Blocking is detected by substituting the token queue class.")
_c("C18", "differential testing across 164 configurations of decorator (none, all states, some states, another decorator) x host (incl. started active objects, named or anonymous) x live flags x drive x polling",
   "Exploration: each generated chart and event list is executed under every configuration and the handler action "
   "logs and resting states must be identical.",
   "The active-object configurations run under the deterministic scheduler with round-robin scheduling.")
_c("C19", "property-based testing: spy output vs the handlers' own invocation stream",
   "Exploration: spy_rtc() and spy() of generated histories compared line by line with an oracle built from what "
   "the handlers themselves saw (calls, statuses, action positions) and the model's queue counts; ring wrap covered.",
   "Trusts the handler-side stream; markers of posts made outside a step are not required.")
_c("C20", "property-based testing: parsed trace() vs reference model transitions",
   "Exploration: one record for start and one per transition step, none otherwise, order and 500-record ring, "
   "on generated histories with posts/defers/recalls inside handlers.",
   "Trusts the reference model and the documented trace line layout.")
_c("C21", "property-based testing with a generated (coarse/constant) clock substituted for datetime.now",
   "Exploration: live spy/trace callback streams of generated histories equal the concatenated step logs and the "
   "new trace records, exactly once and in order, under fine, coarse, constant, backward-running and erratic clocks; one case in three on a started active object (writer thread).",
   "Clock substitution by module attribute; the active-object cases run under the deterministic scheduler (round-robin).")
_c("C22", "metamorphic twins + reference model for is_in/child_state",
   "Exploration: query answers compared with the model's active path; a twin without queries must behave identically.",
   "Exception type of a failing child_state is unconstrained; state_name/state_fn and the instrumentation switches are compared with the unqueried twin after every query.")
_c("C23", "property-based testing: state_name/state_fn/current_state vs reference model after every step",
   "Exploration on all hosts (incl. named and anonymous active objects) with decorated, bare and partly decorated charts.",
   "Steps already desynchronised by C01/C02 faults are not examined.")
_c("C24", "fault injection: generated well-formed chart + one malformed init target / status-less handler, bounded execution",
   "Exploration: every fault shape reached by start_at and by dispatch must raise HsmTopologyException within a call bound.",
   "Hang detection is a call-count bound (top() counter, handler counter).")
_c("C26", "round-trip property over st.text() names x recursive JSON payloads",
   "Exploration: thousands of generated (name, payload) pairs incl. foreign-made JSON; name, payload (type-exact), "
   "number binding and non-interference with other bindings.",
   "NaN/inf and tuples excluded by the statement.")
_c("C28", "grammar-based generation: every statement of a finite statement grammar is enumerated, plus Hypothesis sampling",
   "Exploration (complete over the stated grammar): after each statement the attribute lock depth is 0 and another "
   "thread can take it.",
   "Lock ownership observed through a counting wrapper substituted for RLock; one-line statements only.")
_c("C29", "model-based testing: generated create/assign/augment/read histories vs a per-instance dict",
   "Exploration: instances of one or two freshly defined classes, reads must return the model value of that instance.",
   "Sequential histories plus threaded cases (each thread on its own instance) under the deterministic scheduler.")
_c("C32", "metamorphic + reference-implementation oracle over generated traces",
   "Exploration: benign perturbations (timestamps, blank lines, surrounding whitespace) keep stripped() equal; "
   "field edits, drops, swaps, duplicates make it unequal; independent reference of the stripped lines.",
   "Names contain no line-boundary characters; both texts keep the multi-line shape of trace().")

_SCHED = ("Trusts the virtual primitives of harness/detsched.py (threads, events, queues, locks, clock) as "
          "faithful stand-ins; pre-emption at source-line granularity explores a subset of the bytecode-level "
          "interleavings; sampling, not exhaustive.")
_c("C04", "schedule fuzzing under a deterministic scheduler + linearizability check of the deque history",
   "Exploration: generated schedules (thread pick, run length) x generated posting scenarios; multiset equality, "
   "exhaustive linearizability search per run, no lost wake-up, non-overlapping RTC steps.", _SCHED)
_c("C05", "schedule fuzzing with exact deadlock detection and a step bound under a fair round-robin suffix",
   "Exploration: posting scenarios incl. queues pre-filled to the token-queue bound; deadlock and non-termination "
   "(step bound >100x the longest passing run) are failures.", _SCHED + " Liveness is decided only up to the step bound.")
_c("C06", "model-based testing of the fabric (subscribe/publish/settle histories) under generated schedules",
   "Exploration: identity-keyed registry model; exact delivery counts at settle points, 0..1 for publications "
   "overlapping a subscription.", _SCHED)
_c("C07", "scripted configurations (decorated or not x before/after start x inside/outside a handler x prior subscribers) under generated schedules",
   "Exploration: generated scripts over 1-3 active objects; publications after a subscription took effect must be "
   "dispatched exactly once per kind.", _SCHED)
_c("C08", "schedule fuzzing with lagging delivery threads; order oracle sound under any lag",
   "Exploration: generated bursts of (signal, priority) publications; equal-priority publish order and priority "
   "order rules that hold however far the delivery threads lag.", _SCHED)
_c("C09", "model deque oracle with the consumer parked behind a gate",
   "Exploration: generated mixes of posts and fifo/lifo-subscribed publications placed while the object's thread "
   "is parked; dispatch order after the gate equals the model deque.", _SCHED)

_c("C10", "virtual-clock testing: exact posting instants under a deterministic scheduler",
   "Exploration: generated periods/repeat counts/deferral flags/queue kinds and 1-3 concurrent sources; posting "
   "instants compared exactly with repeated float addition; placement checked against a model deque.", _SCHED)
_c("C11", "schedule fuzzing of cancellation against timer threads at coinciding virtual instants",
   "Exploration: cancel_event/cancel_events with identical, rebuilt and round-tripped arguments at instants that "
   "coincide with firings; no posting invoked after the cancelling call returned; other sources undisturbed.",
   _SCHED)
_c("C12", "schedule fuzzing of stop() from outside and from a handler, with timers and a slow step",
   "Exploration: thread liveness, no later RTC step, no later timer posting, the rest of the system keeps working.", _SCHED)
_c("C13", "model-based testing of fabric lifecycles (start/stop/clear/subscribe/publish/objects)",
   "Exploration: live delivery threads (identified black-box), is_alive(), exactly-once delivery, objects halting "
   "after stop, delivery after restart.", _SCHED)
_c("C17", "differential testing of five builds of one generated chart against the reference model",
   "Exploration: hand-written, template (two charts of one recipe), to_code(template), Factory as a started "
   "active object, to_code(factory); identical callback action logs and resting states.",
   "Trusts the reference model; Factory build runs under the deterministic scheduler (round-robin).")
_c("C25", "model-based testing (sequential) + bytecode-granular schedule fuzzing (concurrent registration)",
   "Exploration: registry bijection, stable numbers, inverse lookup, inner-signal classification, Event "
   "consistency; concurrent registrations pre-empted at every bytecode of miros/event.py.", _SCHED)
_c("C27", "schedule fuzzing of generated multi-threaded programs; serializability oracle",
   "Exploration: 2-3 threads of assignments/augmented assignments/reads on one attribute; final value must be "
   "the result of some serial order (all enumerated); no thread error, no deadlock.", _SCHED)
_c("C30", "schedule fuzzing of concurrent first requests with fine run lengths",
   "Exploration: 2-4 threads request the lazily created singletons (directly and by constructing active "
   "objects) starting from freshly made wrappers; one identity per singleton; a lifetime probe (ask, drop every reference, collect, ask again).", _SCHED)
_c("C31", "virtual-clock testing of a rejected timed post",
   "Exploration: source limit reached (QUEUE_SIZE 1..5 by subclass; 500 and a subclass limit of 506 in thorough), further posts must raise, "
   "never fire, and leave the tracked sources on schedule.", _SCHED)

NOT_APPLICABLE = {}
_SCHED_PROPS = ["C04", "C05", "C06", "C07", "C08", "C09", "C10", "C11", "C12", "C13", "C15", "C17", "C20", "C21",
                "C23", "C25", "C26", "C27", "C30", "C31"]
for _e in ENGINES:
  _e["serves_properties"] = sorted(CLAIMED) if _e["name"] == "hypothesis-harness" else _SCHED_PROPS
