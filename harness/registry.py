"""What MANIFEST.json claims, per property.  tools/gen_manifest.py turns this into the manifest."""

ENGINES = [
  {"name": "hypothesis-harness", "path": "/verif/harness",
   "serves_properties": [],
   "kind_free_text": "Hypothesis-driven generated-input search against explicit oracles (reference "
                     "model, model deque, differential, metamorphic); one module per property under "
                     "harness/props; bounded-exhaustive enumeration of small shapes in thorough tiers"},
]

NOTES = ("All checks: python -m harness.run <ID> --tier quick|thorough (VERIF_SEED honoured). "
         "Exit 2 = harness error, never a verdict. Saved shrunk failures are replayed first "
         "(regressions/<ID>-*.json). known_findings.json lists recorded and fixed defects.")

_CHART = ("reference model of UML/Samek semantics (harness/refmodel.py) as oracle over "
          "Hypothesis-generated charts, start states and event lists")

CLAIMED = {
  "C01": {
    "technique": "property-based testing: generated charts vs reference model (Hypothesis + bounded-exhaustive small forests)",
    "text": "Exploration: thousands of generated chart shapes (depth to 13, multi-level initial transitions) "
            "x hosts x event lists compared step by step with an independent reference model; thorough "
            "enumerates every forest of <=4 states x init assignment x (start,S,T). Right level because the "
            "property quantifies over all charts and the oracle is exact and cheap.",
    "note": "Trusts the 150-line reference model and the handler-side action log; absence is not shown.",
  },
  "C02": {
    "technique": "property-based testing: generated reactions (handle/trans/decline/guard) vs reference model",
    "text": "Exploration: offer path and no-side-effect rule checked on every step of generated charts "
            "and event lists against the reference model, across four hosts and both decoration styles.",
    "note": "Trusts the reference model; processor-internal probes (EMPTY/SEARCH) are not treated as offers.",
  },
  "C03": {
    "technique": "property-based testing: generated charts/start states vs reference model (+ exhaustive forests <=5)",
    "text": "Exploration: start_at on every kind of host for generated charts; thorough enumerates all "
            "forests of <=5 states x every init assignment x every start state.",
    "note": "Trusts the reference model and handler-side logs.",
  },
}

NOT_APPLICABLE = {}
for _e in ENGINES:
  _e["serves_properties"] = sorted(CLAIMED)
