"""Helpers for the scheduler-based active-object checks: a recording ActiveObject
subclass, simple hand-written charts, a linearizability checker for deque histories."""
from . import detsched
from .detsched import sched
from .common import HarnessBound


class Rec:
  """Everything one case records (step-stamped)."""

  def __init__(self):
    self.dispatch = []    # (id, step, tid, ao name)
    self.posts = []       # dict(kind, id, tid, inv, ret, now, ao)
    self.rtc = []         # ("enter"/"leave", step, tid, ao name)
    self.timer_posts = [] # dict(kind, id, tid, step, now, ao) posts made by non-body, non-poster threads
    self.gate = {}        # name -> bool gates handlers may wait on


def key_of(chart):
  """Record key of an object: its name unless the check gave it an explicit key (two objects
  may share a name)."""
  return getattr(chart, "_vf_key", None) or chart.name


def make_ao_class(rec):
  """An ActiveObject subclass that stamps posts and RTC steps."""
  import miros.activeobject as ao
  from . import chartgen

  class RecAO(chartgen.bounded(ao.ActiveObject)):
    def next_rtc(self):
      s = sched()
      rec.rtc.append(("enter", s.steps, s.current.tid, key_of(self)))
      try:
        return super().next_rtc()
      finally:
        rec.rtc.append(("leave", s.steps, s.current.tid, key_of(self)))

    def _stamp(self, kind, e, period, fn):
      s = sched()
      if period is not None:
        return fn()
      p = {"kind": kind, "id": e.payload, "sig": e.signal_name, "tid": s.current.tid,
           "thread": s.current.name, "inv": s.steps, "now": s.now, "ao": key_of(self), "ret": None}
      rec.posts.append(p)
      slow = getattr(rec, "slow_post", None)
      if slow:
        # a posting that takes (virtual) time, e.g. a user's override that does slow work first
        nth = sum(1 for q in rec.posts if q["id"] == p["id"] and q["sig"] == p["sig"]) - 1
        d = slow.get((p["sig"], p["id"], nth))
        if d:
          import miros.activeobject as ao_
          ao_.time.sleep(d)
      try:
        return fn()
      finally:
        p["ret"] = s.steps

    def post_fifo(self, e, period=None, times=None, deferred=None):
      return self._stamp("fifo", e, period,
                         lambda: super(RecAO, self).post_fifo(e, period, times, deferred))

    def post_lifo(self, e, period=None, times=None, deferred=None):
      return self._stamp("lifo", e, period,
                         lambda: super(RecAO, self).post_lifo(e, period, times, deferred))
  return RecAO


def flat_chart(rec, decorate=True, on_dispatch=None, sigs=("VA", "VB", "VC")):
  """One hand-written state that handles the given user signals and logs each dispatch.
  on_dispatch(chart, e) runs inside the handler (may post, publish, stop, wait on a gate)."""
  from miros.event import signals, return_status
  from miros.hsm import spy_on as deco
  nums = {}
  for s in sigs:
    signals.append(s)
    nums[signals[s]] = s

  def vflat(chart, e):
    status = return_status.UNHANDLED
    if e.signal == signals.ENTRY_SIGNAL:
      status = return_status.HANDLED
    elif e.signal == signals.INIT_SIGNAL:
      status = return_status.HANDLED
    elif e.signal == signals.EXIT_SIGNAL:
      status = return_status.HANDLED
    elif e.signal in nums:
      s = sched()
      rec.dispatch.append({"id": e.payload, "sig": nums[e.signal], "step": s.steps, "tid": s.current.tid,
                           "now": s.now, "ao": key_of(chart)})
      if on_dispatch is not None:
        on_dispatch(chart, e)
      status = return_status.HANDLED
    else:
      chart.temp.fun = chart.top
      status = return_status.SUPER
    return status
  vflat.__name__ = "vflat"
  return deco(vflat) if decorate else vflat


# ---------------------------------------------------------------------------
# linearizability of a deque history
# ---------------------------------------------------------------------------
def linearizable(posts, pops, limit=200000):
  """posts: [{id, kind, inv, ret, tid}], pops: [{id, inv, ret}] in observed dispatch order.
  Is there a total order of all operations that respects real-time order (a.ret < b.inv
  => a before b) and per-thread program order, under which a deque (fifo = append,
  lifo = appendleft, pop = popleft) yields each pop's id?  Returns (ok, explored)."""
  ops = []
  for p in posts:
    ops.append(("post", p["kind"], p["id"], p["inv"], p["ret"]))
  for k, p in enumerate(pops):
    ops.append(("pop", k, p["id"], p["inv"], p["ret"]))
  n = len(ops)
  order_before = [set() for _ in range(n)]   # ops that must precede op i
  for i in range(n):
    for j in range(n):
      if i != j and ops[j][4] is not None and ops[j][4] < ops[i][3]:
        order_before[i].add(j)
  # pops happen in observed order
  pop_idx = [i for i in range(n) if ops[i][0] == "pop"]
  for a, b in zip(pop_idx, pop_idx[1:]):
    order_before[b].add(a)
  seen = set()
  explored = [0]

  def rec(done, dq):
    if len(done) == n:
      return True
    key = (done, dq)
    if key in seen:
      return False
    seen.add(key)
    explored[0] += 1
    if explored[0] > limit:
      raise HarnessBound("linearizability search limit")
    for i in range(n):
      if i in done or not order_before[i] <= done:
        continue
      o = ops[i]
      if o[0] == "post":
        nd = dq + (o[2],) if o[1] == "fifo" else (o[2],) + dq
        if rec(done | {i}, nd):
          return True
      else:
        if dq and dq[0] == o[2]:
          if rec(done | {i}, dq[1:]):
            return True
    return False
  return rec(frozenset(), ()), explored[0]
