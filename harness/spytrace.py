"""Shared executor for the instrumentation properties C19 (spy), C20 (trace), C21 (live
output): a decorated chart on an instrumented queued host, driven by a generated
history, with the handlers' own invocation stream as the oracle for the spy and the
reference model as the oracle for the trace."""
import re
import datetime as _dt
from collections import deque
from hypothesis import strategies as st

from . import chartgen, queued, hsmcheck
from .common import PropertyViolation, HarnessBound
from .hsmcheck import name_of

RING = 500
TRACE_RE = re.compile(r"^\[([^\]]*)\] \[([^\]]*)\] e->(.*)\(\) (.*)->(.*)$")

KINDS = ("post_fifo", "post_fifo", "post_fifo", "post_lifo", "post_lifo", "next_rtc", "next_rtc", "next_rtc",
         "next_rtc", "complete_circuit", "complete_circuit", "defer", "recall", "query", "clear_spy", "clear_trace")
ACTION_KINDS = ("post_fifo", "post_fifo", "post_lifo", "post_lifo", "defer", "defer", "defer", "defer_e", "defer_e",
                "recall", "recall", "recall", "scribble", "scribble",
                "is_in", "is_in", "is_in", "current_state", "current_state", "current_state",   # handlers that query the chart
                "clear_spy", "clear_trace")                              # handlers that empty the logs mid-step


def history(tier):
  return queued.history(kinds=KINDS, action_kinds=ACTION_KINDS, max_ops=25, spy=True, bulk=True)


def at_capacity(case):
  """The history starts from a queue that holds exactly its capacity (500 events): after the pop of
  the current event a handler's second post displaces a queued event (bounded deque) - it is a post
  made during the step all the same."""
  sig = case["spec"]["sigs"][0]
  return dict(case, at_capacity=True, budget=30,
              ops=[["bulk_post", sig, 500]] + [o for o in case["ops"] if o[0] != "bulk_post"])


def spy_lines(raw, HANDLED):
  """Expected spy lines of one step from the handlers' own invocation stream."""
  out = []
  for r in raw:
    if r[0] == "call":
      out.append("%s:%s" % (r[1], name_of(r[2])))
    elif r[0] == "ret":
      if r[4] and r[3] == HANDLED:
        out.append("%s:%s:HOOK" % (r[1], name_of(r[2])))
    elif r[0] == "act":
      k, d = r[1], r[2]
      if k == "post_fifo":
        out.append("POST_FIFO:%s" % d)
      elif k == "post_lifo":
        out.append("POST_LIFO:%s" % d)
      elif k == "defer":
        out.append("POST_DEFERRED:%s" % d)
      elif k == "recall":
        if d is not None:
          out.append("RECALL:%s" % d)
          out.append("POST_FIFO:%s" % d)
      elif k == "scribble":
        out.append(d)
  return out


def parse_trace(text):
  out = []
  for line in (text or "").splitlines():
    line = line.strip()
    if not line:
      continue
    m = TRACE_RE.match(line)
    if not m:
      out.append(("unparsed", line, None))
    else:
      out.append((m.group(3), m.group(4), m.group(5)))
  return out


class Clock:
  """Generated wall clock substituted for datetime.now inside miros.hsm."""

  def __init__(self, kind):
    self.kind = kind
    self.n = 0
    self.base = _dt.datetime(2024, 1, 1, 12, 0, 0)

  def now(self):
    self.n += 1
    if self.kind == "constant":
      return self.base
    if self.kind == "coarse":          # advances every 7th reading
      return self.base + _dt.timedelta(milliseconds=16 * (self.n // 7))
    if self.kind == "coarse_long":     # advances every 40th reading
      return self.base + _dt.timedelta(milliseconds=16 * (self.n // 40))
    if self.kind == "backwards":       # a clock that is set back: every reading is earlier than the last
      return self.base - _dt.timedelta(milliseconds=250 * self.n)
    if self.kind == "stepped_back":    # runs forward, but is set back two seconds every fifth reading
      return self.base + _dt.timedelta(milliseconds=10 * self.n) - _dt.timedelta(seconds=2 * (self.n // 5))
    if self.kind == "erratic":         # no order at all
      return self.base + _dt.timedelta(milliseconds=(self.n * 7919) % 1000)
    return self.base + _dt.timedelta(microseconds=self.n)


def install_clock(clock):
  """Returns an undo function."""
  import miros.hsm as hsm
  real = hsm.stdlib_datetime

  class FakeDateTime(real):
    @classmethod
    def now(cls, tz=None):
      return clock.now()
  hsm.stdlib_datetime = FakeDateTime

  def undo():
    hsm.stdlib_datetime = real
  return undo


class Desync(Exception):
  pass


def cleared(seg, which):
  return any(r[0] == "act" and r[1] == which for r in seg)


class Run:
  """Executes a history and yields per-op observations plus expectations."""

  def __init__(self, case, live_spy=False, live_trace=False, clock=None, host=None, reactive=False):
    self.host = host
    self.reactive = reactive
    from miros.event import return_status
    self.HANDLED = return_status.HANDLED
    self.case = case
    self.spy_out, self.trace_out = [], []
    self.undo = install_clock(Clock(clock)) if clock else None
    budget = case.get("budget", 30)

    def setup(chart, rt):
      rt.keep_raw = True
      chart.live_spy = live_spy
      chart.live_trace = live_trace
      if self.reactive:
        # a callback that reacts to what it is shown by writing to the chart's spy
        def reacting(line, chart=chart):
          self.spy_out.append(line)
          if line.startswith(("ENTRY_SIGNAL", "EXIT_SIGNAL")):
            chart.scribble("vfseen")
        chart.register_live_spy_callback(reacting)
      else:
        chart.register_live_spy_callback(self.spy_out.append)
      chart.register_live_trace_callback(self.trace_out.append)
    self.real = queued.RealQueued(case, budget=budget, decorate=True, setup=setup, host=host)
    rt = self.real.rt
    real_dispatch = self.real.chart.dispatch

    def dispatch(e):
      rt.raw.append(("step", e.signal_name))
      return real_dispatch(e)
    self.real.chart.dispatch = dispatch
    self.model = queued.QModel(case["spec"], budget=budget, bounded=bool(case.get("at_capacity")))
    self.exp_full = deque(maxlen=RING)
    self.exp_trace = deque(maxlen=RING)
    self.exp_live_spy = []
    self.exp_live_trace = []

  def close(self):
    if self.undo:
      self.undo()

  def reflection(self):
    return "<- Queued:(%d) Deferred:(%d)" % (len(self.model.d.q), len(self.model.d.deferred))

  def start(self):
    m = self.model
    m.start(self.case["start"])
    self._q_at_start = len(m.d.q)
    m.d.deferred_at_start = list(m.d.deferred)
    self._rest_at_start = name_of(m.m.cur)
    o = self.real.start()
    self._start_seg = [r for r in o.extra["raw"] if r[0] != "step"][:self._start_len(o)]
    first = ["START"] + spy_lines([r for r in o.extra["raw"] if r[0] != "step"][:self._start_len(o)],
                                  self.HANDLED) + [self.reflection_at_start()]
    if self.host == "ao":
      return self._start_ao(o, first)
    step = first
    self.exp_full.extend(step)           # (a log emptied during start_at is empty before this anyway)
    self.exp_trace.append(("start_at", "top", name_of(m.m.cur)))
    self.exp_live_spy.extend(step)
    self.exp_live_trace.append(("start_at", "top", name_of(m.m.cur)))
    return o, [step]

  def _start_len(self, o):
    """Number of raw entries that belong to start_at itself (before the first dispatch)."""
    n = 0
    for r in o.extra["raw"]:
      if r[0] == "step":
        break
      n += 1
    return n

  def reflection_at_start(self):
    if self.host != "ao":
      return self.reflection()
    # the active object drains the posts made during start_at right away: the reflection line
    # written by start_at itself still counted them
    return "<- Queued:(%d) Deferred:(%d)" % (self._q_at_start, len(self.model.d.deferred_at_start))

  def _start_ao(self, o, first):
    """An active object runs the events posted during start_at as soon as it is started."""
    m = self.model
    steps = [first]
    self.exp_full.extend(first)
    self.exp_live_spy.extend(first)
    self.exp_trace.append(("start_at", "top", self._rest_at_start))
    self.exp_live_trace.append(("start_at", "top", self._rest_at_start))
    steps.extend(self._drain(o))
    return o, steps

  def _drain(self, o):
    """Model: run the queue dry; pair each model step with the real raw segment."""
    m = self.model
    results = []
    while m.d.q:
      r = m.next_rtc()
      results.append(r + (self.reflection(),))
    segs, cur = [], None
    for r in o.extra["raw"]:
      if r[0] == "step":
        if r[1] in ("SUBSCRIBE_META_SIGNAL", "PUBLISH_META_SIGNAL"):
          cur = None          # the object's own housekeeping event: no step of the chart's model
          continue
        cur = []
        segs.append(cur)
      elif cur is not None:
        cur.append(r)
    if len(segs) != len(results):
      import os
      if os.environ.get("VF_DEBUG"):
        print("DESYNC segs", len(segs), "results", len(results), [r for r in o.extra["raw"] if r[0] in ("step",)], [ (x[0], x[1]["kind"]) for x in results])
      raise Desync()
    steps = []
    for seg, (ev, res, refl) in zip(segs, results):
      step = spy_lines(seg, self.HANDLED) + [refl]
      steps.append(step)
      if cleared(seg, "clear_spy"):
        self.exp_full.clear()            # the running step's own log is added when the step ends
      if cleared(seg, "clear_trace"):
        self.exp_trace.clear()
      self.exp_full.extend(step)
      self.exp_live_spy.extend(step)
      if res["kind"] == "trans":
        rec = (ev[1], name_of(res["from"]), name_of(res["to"]))
        self.exp_trace.append(rec)
        self.exp_live_trace.append(rec)
    return steps

  def apply(self, op):
    """Returns (observation, list of expected step logs) or None when the op is skipped
    (next_rtc/complete_circuit on an empty queue is not a step)."""
    m = self.model
    k = op[0]
    if self.host == "ao":
      if k not in ("post_fifo", "post_lifo", "post_fifo_same", "post_lifo_same"):
        return None
      nact = len(m.actlog)
      m.external(op)
      o = self.real.apply(op)
      try:
        steps = self._drain(o)
      except Desync:
        return "desync"
      if [a[0] for a in o.actlog] != [a[0] for a in m.actlog[nact:]]:
        return "desync"
      return o, steps
    if k == "complete_circuit" and not m.d.q:
      return None
    if k == "next_rtc" and not m.d.q:
      # nothing is queued: no event is dispatched, the step's log is the queue reflection alone
      o = self.real.apply(op)
      if o.dispatched or o.log:
        return "desync"
      step = [self.reflection()]
      self.exp_full.extend(step)
      self.exp_live_spy.extend(step)
      return o, [step]
    if k in ("is_in", "child_state"):
      self.real.apply(op)
      return None
    if k in ("clear_spy", "clear_trace"):
      # emptied from outside, between steps: the accumulated log starts again
      o = self.real.apply(op)
      (self.exp_full if k == "clear_spy" else self.exp_trace).clear()
      return o, []
    nact = len(m.actlog)
    results = []
    if k == "next_rtc":
      results.append(m.next_rtc())
    elif k == "complete_circuit":
      while m.d.q:
        results.append(m.next_rtc())
        results[-1] = results[-1] + (self.reflection(),)
    elif k == "recall":
      m.d.recall()
    else:
      m.external(op)
    if k == "next_rtc":
      results[0] = results[0] + (self.reflection(),)
    o = self.real.apply(op)
    if [a[0] for a in o.actlog] != [a[0] for a in m.actlog[nact:]]:
      return "desync"
    steps = []
    if results:
      # split the raw stream at the dispatch markers
      segs, cur = [], None
      for r in o.extra["raw"]:
        if r[0] == "step":
          cur = []
          segs.append(cur)
        elif cur is not None:
          cur.append(r)
      if len(segs) != len(results):
        return "desync"
      for seg, (ev, res, refl) in zip(segs, results):
        step = spy_lines(seg, self.HANDLED) + [refl]
        steps.append(step)
        if cleared(seg, "clear_spy"):
          self.exp_full.clear()          # the running step's own log is added when the step ends
        if cleared(seg, "clear_trace"):
          self.exp_trace.clear()
        self.exp_full.extend(step)
        self.exp_live_spy.extend(step)
        if res["kind"] == "trans":
          rec = (ev[1], name_of(res["from"]), name_of(res["to"]))
          self.exp_trace.append(rec)
          self.exp_live_trace.append(rec)
    return o, steps
