"""Entry point:  python -m harness.run <ID> [--tier quick|thorough] [--replay FILE]

Exit 0: property held on everything explored (known findings are printed as
        KNOWN-FINDING lines).
Exit 1: a line "VIOLATION property=<ID> replay=<path>" was printed.
Exit 2: harness error / nothing explored (never a verdict).
"""
import os
import sys
import json
import shutil
import argparse
import importlib
import subprocess
import traceback

from . import common
from .common import Stats, PropertyViolation, HarnessError


class Prop:
  """Base class of a property check.  Subclasses live in harness/props/cNN.py as `PROP`."""
  id = None
  rule = ""
  assumptions = []
  quick_examples = 500
  thorough_examples = 5000      # per shard
  shards = 16
  shrink = True
  max_samples = 5

  def __init__(self):
    self.known = common.load_known(self.id)
    self.known_buckets = set(k["bucket"] for k in self.known)
    self.ignore_known = False

  # -- to override
  def strategy(self, tier):
    raise NotImplementedError

  def check(self, case, stats):
    """Raise PropertyViolation(msg, bucket) if the property fails on `case`."""
    raise NotImplementedError

  def extra(self, tier, seed, shard, nshards, stats):
    """Optional non-Hypothesis exploration (bounded-exhaustive enumeration, fixed
    regression cases).  Yield (case, PropertyViolation) for failures."""
    return ()

  def extra_evidence(self, stats):
    return {}

  # -- helpers
  def violation(self, stats, msg, bucket=None):
    """Raise unless the bucket is a listed known finding (then count the exclusion)."""
    if bucket is not None and bucket in self.known_buckets and not self.ignore_known:
      stats.exclude("known:" + bucket)
      return False
    raise PropertyViolation(msg, bucket)

  def run_once(self, tier, seed, shard=0, nshards=1):
    stats = Stats(self.max_samples)
    failures = []
    n = self.quick_examples if tier == "quick" else self.thorough_examples
    if shard == 0:
      for case, v in self.regressions(stats):
        failures.append((case, v))
        break
    if not failures:
      for case, v in self.extra(tier, seed, shard, nshards, stats):
        failures.append((case, v))
        break
    if not failures and n > 0:
      f = common.hyp_explore(self.strategy(tier), lambda c: self.check(c, stats), n,
                             seed * 1000 + shard, shrink=self.shrink)
      if f:
        failures.append(f)
    return stats, failures

  def regressions(self, stats):
    """Replay tier: saved cases under /verif/regressions/<ID>-*.json (earlier shrunk
    failures), run before any generation."""
    import glob
    n = 0
    for path in sorted(glob.glob(os.path.join(common.VERIF, "regressions", self.id + "-*.json"))):
      with open(path) as f:
        body = json.load(f)
      n += 1
      try:
        self.check(body["case"], stats)
      except PropertyViolation as v:
        yield body["case"], v
        return
    if n:
      stats.classes["regression_replays"] = n

  def replay(self, case):
    """Run one saved case without Hypothesis; returns PropertyViolation or None."""
    try:
      self.check(case, Stats())
    except PropertyViolation as v:
      return v
    return None


def load_prop(pid):
  mod = importlib.import_module("harness.props.%s" % pid.lower())
  return mod.PROP()


def shard_main(prop, tier, seed, shard, nshards, out):
  stats, failures = prop.run_once(tier, seed, shard, nshards)
  body = {"stats": stats.to_json(),
          "failures": [{"case": c, "msg": v.msg, "bucket": v.bucket} for c, v in failures]}
  with open(out, "w") as f:
    json.dump(body, f, default=str)


def run_sharded(prop, tier, seed):
  work = os.path.join(common.WORK_DIR, "%s-%d" % (prop.id, os.getpid()))
  os.makedirs(work, exist_ok=True)
  procs = []
  try:
    for k in range(prop.shards):
      out = os.path.join(work, "shard-%d.json" % k)
      cmd = [sys.executable, "-m", "harness.run", prop.id, "--tier", tier,
             "--shard", "%d/%d" % (k, prop.shards), "--out", out]
      env = dict(os.environ, VERIF_SEED=str(seed), PYTHONHASHSEED="0")
      # (whatever a shard prints goes to a file: the library prints when live output has no
      # callback, and a pipe nobody reads yet would stall the shard once it is full)
      log = open(os.path.join(work, "shard-%d.log" % k), "wb")
      procs.append((k, out, subprocess.Popen(cmd, cwd=common.VERIF, env=env, stdout=log, stderr=subprocess.STDOUT),
                    log))
    parts, failures, errors = [], [], []
    for k, out, p, log in procs:
      p.wait()
      log.close()
      if p.returncode != 0 or not os.path.exists(out):
        with open(log.name, "rb") as f:
          f.seek(0, 2)
          f.seek(max(0, f.tell() - 2000))
          text = f.read()
        errors.append("shard %d exit %s: %s" % (k, p.returncode, text.decode("utf-8", "replace")))
        continue
      with open(out) as f:
        body = json.load(f)
      parts.append(body["stats"])
      for fl in body["failures"]:
        failures.append((fl["case"], PropertyViolation(fl["msg"], fl["bucket"])))
    if errors:
      raise HarnessError("; ".join(errors))
    return Stats.merge(parts, prop.max_samples), failures
  finally:
    shutil.rmtree(work, ignore_errors=True)


def main(argv=None):
  ap = argparse.ArgumentParser()
  ap.add_argument("pid")
  ap.add_argument("--tier", default=os.environ.get("VERIF_TIER", "quick"),
                  choices=["quick", "thorough"])
  ap.add_argument("--replay")
  ap.add_argument("--shard")
  ap.add_argument("--out")
  args = ap.parse_args(argv)
  os.environ.setdefault("PYTHONHASHSEED", "0")
  # watchdog: a check that does not come back is a harness problem (exit 2), never a verdict
  import threading
  limit = float(os.environ.get("VERIF_WATCHDOG_S", "2700" if args.tier == "quick" else "28000"))

  def give_up():
    sys.stdout.write("HARNESS-ERROR: watchdog: %s %s still running after %.0f s (exit 2)\n" % (
      args.pid, args.tier, limit))
    sys.stdout.flush()
    os._exit(2)
  # (a raw thread: the threading module's count of threads stays what a user's process would see)
  import _thread, time as _time

  def watchdog():
    _time.sleep(limit)
    give_up()
  _thread.start_new_thread(watchdog, ())
  seed = common.seed_value()
  timer = common.Timer()
  common.use_repo()
  prop = load_prop(args.pid)

  if args.replay:
    with open(args.replay) as f:
      body = json.load(f)
    case = body["case"] if "case" in body and "property_id" in body else body
    prop.ignore_known = True
    v = prop.replay(case)
    if v is not None:
      print("replay fails: %s" % v.msg)
      print("VIOLATION property=%s replay=%s" % (prop.id, os.path.abspath(args.replay)))
      return 1
    print("replay holds")
    return 0

  if args.shard:
    k, n = [int(x) for x in args.shard.split("/")]
    shard_main(prop, args.tier, seed, k, n, args.out)
    return 0

  # listed known findings: replay each, report it only while it still fails
  known_reported = []
  for k in prop.known:
    prop.ignore_known = True
    try:
      v = prop.replay(k["case"])
    finally:
      prop.ignore_known = False
    if v is not None:
      print("KNOWN-FINDING: property=%s %s" % (prop.id, k["what"]))
      known_reported.append({"bucket": k["bucket"], "still_reproduces": True, "what": k["what"]})
    else:
      print("note: listed finding no longer reproduces: %s" % k["what"])
      known_reported.append({"bucket": k["bucket"], "still_reproduces": False, "what": k["what"]})

  if args.tier == "thorough" and prop.shards > 1:
    stats, failures = run_sharded(prop, args.tier, seed)
  else:
    stats, failures = prop.run_once(args.tier, seed)

  if stats.evaluations == 0 and not failures:
    raise HarnessError("nothing explored")
  replays = []
  for case, v in failures:
    replays.append(common.write_replay(prop.id, case, v.msg, v.bucket))
  if os.environ.get("VERIF_NO_EVIDENCE"):
    for r in set(replays):
      if os.path.exists(r):
        os.unlink(r)
  if len(stats.nontrivial) < 2 and not failures:
    raise HarnessError("fewer than 2 non-trivial cases generated; generator is broken")
  if not os.environ.get("VERIF_NO_EVIDENCE"):
    common.write_evidence(prop.id, args.tier, seed, stats, prop.rule, prop.assumptions,
                          timer.wall(), len(failures),
                          extra=dict(prop.extra_evidence(stats), known_findings=known_reported))
  print("%s %s: %d cases, %d distinct non-trivial, %d violation(s), %.1fs" % (
    prop.id, args.tier, stats.evaluations, len(stats.nontrivial), len(failures), timer.wall()))
  if failures:
    for (case, v), path in zip(failures, replays):
      print("failure: %s" % v.msg)
      print("VIOLATION property=%s replay=%s" % (prop.id, path))
    return 1
  return 0


if __name__ == "__main__":
  try:
    rc = main()
  except SystemExit:
    raise
  except BaseException:
    traceback.print_exc()
    print("HARNESS-ERROR (exit 2)")
    rc = 2
  sys.stdout.flush()
  os._exit(rc)
