"""Deterministic scheduler for miros' threaded code.

Every miros thread is a real OS thread that only runs while it holds the baton
(one semaphore per thread), so exactly one runs at any time.  Pre-emption points are
line (optionally opcode) trace events in chosen source files plus every operation on
a virtual primitive.  Scheduling decisions come from a generated list, then a fair
round-robin suffix.  Virtual time advances only when nothing is runnable.

Virtual primitives replace, by identity, the ones miros imported: threading.Thread,
threading.Event, threading.RLock, queue.Queue, queue.PriorityQueue and the `time`
module (sleep/time).  Storage semantics of the queues are the standard library's
(_init/_put/_get/_qsize are inherited); only the blocking shell is re-implemented.
"""
import sys
import queue as _queue
import threading as _threading
import traceback

CUR = None            # the active Scheduler (one per case)
_threading.stack_size(512 * 1024)   # hundreds of parked threads per case must fit in RLIMIT_AS


class Abort(BaseException):
  """Raised inside virtual threads to unwind them (teardown / failure)."""


class Deadlock(Exception):
  """Every thread is blocked, no timer is pending, and the body is not quiescing."""


class StepLimit(Exception):
  """The step bound was exceeded (non-termination under the fair suffix)."""


class VT:
  """Scheduler record of one virtual thread."""

  def __init__(self, tid, name):
    self.tid = tid
    self.name = name
    self.sem = _threading.Semaphore(0)
    self.pred = None          # callable -> bool while blocked
    self.wake = None          # virtual wake-up time while blocked with timeout
    self.what = None          # description of what it is blocked on
    self.started = False
    self.finished = False
    self.quiescing = False
    self.horizon = None
    self.exc = None
    self.real = None
    self.vthread = None
    self.points = 0

  def __repr__(self):
    return "<VT %d %s%s>" % (self.tid, self.name, " blocked:%s" % self.what if self.pred else "")


class Scheduler:
  def __init__(self, schedule=(), trace_files=(), opcodes=False, step_limit=1500000, quantum=23,
               record=False, timed=None, raw_threads=False):
    self.schedule = [tuple(x) for x in schedule]
    self.timed = dict((float(k), [tuple(x) for x in v]) for k, v in (timed or {}).items())
    self.sched_pos = 0
    self.trace_files = set(trace_files)
    # raw_threads: the OS threads that carry the virtual threads are started with
    # _thread.start_new_thread, as a C library or an embedding application would - the threading
    # module does not know them (threading.active_count() does not count them)
    self.raw_threads = raw_threads
    self.opcodes = opcodes
    self.step_limit = step_limit
    self.quantum = quantum
    self.threads = []
    self.current = None
    self.body = None
    self.now = 0.0
    self.steps = 0
    self.remaining = 1
    self.aborting = False
    self.failed = None          # Deadlock/StepLimit instance
    self.thread_errors = []     # (thread name, exception, formatted traceback)
    self.switches = 0
    self.decisions = 0
    self.rr_last = -1
    self.leaked = 0
    self.record = record
    self.events = []            # optional decision log
    self.marks = {}             # free-form counters for checks (e.g. interesting switches)
    self.on_switch = None       # optional callback(prev_vt, next_vt)
    self.atomic = 0             # >0: no pre-emption (inside a primitive's critical section)

  # ------------------------------------------------------------------ running
  def run(self, body):
    """Run body(sched) as virtual thread 0 in the calling thread."""
    global CUR
    if CUR is not None:
      raise RuntimeError("nested scheduler")
    CUR = self
    vt = VT(0, "body")
    vt.started = True
    vt.real = _threading.current_thread()
    self.threads.append(vt)
    self.body = vt
    self.current = vt
    old = sys.gettrace()
    sys.settrace(self._global_trace)
    try:
      return body(self)
    finally:
      sys.settrace(old)
      try:
        self._teardown()
      finally:
        CUR = None

  def _teardown(self):
    self.aborting = True
    for t in self.threads:
      if t is self.body or not t.started or t.finished:
        continue
      # let it run until it dies on Abort; it hands the baton back to the body
      for _ in range(50):
        if t.finished:
          break
        self.current = t
        t.sem.release()
        if not self.body.sem.acquire(timeout=5):
          break
      if not t.finished:
        self.leaked += 1
    self.current = self.body

  # ------------------------------------------------------------------ tracing
  def _global_trace(self, frame, event, arg):
    if event == "call" and frame.f_code.co_filename in self.trace_files:
      if self.opcodes:
        frame.f_trace_opcodes = True
      return self._local_trace
    return None

  def _local_trace(self, frame, event, arg):
    if event == "line" or (event == "opcode" and self.opcodes):
      self.point()
    return self._local_trace

  # ------------------------------------------------------------------ core
  def me(self):
    return self.current

  def _runnable(self, t):
    if t.finished or not t.started or t.quiescing:
      return False
    if t.pred is None:
      return True
    if t.wake is not None and t.wake <= self.now:
      return True
    return bool(t.pred())

  def _choose(self, cands):
    if len(cands) == 1:
      self.remaining = 1
      return cands[0]
    self.decisions += 1
    if self.timed:
      # decisions scripted for one virtual instant (robust against changes elsewhere in the run)
      lst = self.timed.get(self.now)
      if lst:
        pick, length = lst.pop(0)
        self.remaining = max(1, int(length))
        return cands[pick % len(cands)]
    if self.sched_pos < len(self.schedule):
      pick, length = self.schedule[self.sched_pos]
      self.sched_pos += 1
      self.remaining = max(1, int(length))
      return cands[pick % len(cands)]
    # fair suffix: round robin by thread id
    self.remaining = self.quantum
    later = [t for t in cands if t.tid > self.rr_last]
    t = later[0] if later else cands[0]
    self.rr_last = t.tid
    return t

  def _pick_next(self):
    while True:
      cands = [t for t in self.threads if self._runnable(t)]
      if cands:
        return self._choose(cands)
      q = self.body if (self.body.quiescing and not self.body.finished) else None
      timers = [t.wake for t in self.threads
                if t.started and not t.finished and t.pred is not None and t.wake is not None]
      if timers:
        w = min(timers)
        if q is not None and q.horizon is not None and w > q.horizon:
          self.now = max(self.now, q.horizon)
          self.remaining = 1
          return q
        self.now = max(self.now, w)
        continue
      if q is not None:
        if q.horizon is not None:
          self.now = max(self.now, q.horizon)
        self.remaining = 1
        return q
      # nothing can ever run again
      if self.failed is None:
        self.failed = Deadlock("all threads blocked: %s" % ", ".join(
          "%s on %s" % (t.name, t.what) for t in self.threads if t.started and not t.finished))
      self.body.exc = self.failed
      self.remaining = 1
      return self.body

  def _switch_to(self, nxt):
    cur = self.current
    if nxt is cur:
      return
    self.switches += 1
    if self.on_switch is not None:
      self.on_switch(cur, nxt)
    if self.record:
      self.events.append((self.steps, cur.name, nxt.name))
    self.current = nxt
    nxt.sem.release()
    cur.sem.acquire()
    # resumed
    self._resumed(cur)

  def _resumed(self, t):
    if self.aborting and t is not self.body:
      raise Abort()
    if t.exc is not None:
      e, t.exc = t.exc, None
      raise e

  def point(self):
    """Pre-emption point reached by the current thread."""
    if self.atomic:
      return          # inside a virtual primitive's critical section (real ones hold a mutex)
    if self.aborting:
      if self.current is not self.body:
        raise Abort()
      return
    self.steps += 1
    self.current.points += 1
    if self.steps > self.step_limit:
      self._fail(StepLimit("step bound %d exceeded" % self.step_limit))
    self.remaining -= 1
    if self.remaining > 0:
      return
    self._switch_to(self._pick_next())

  def _fail(self, exc):
    """Record a scheduler-level failure and deliver it to the body."""
    if self.failed is None:
      self.failed = exc
    cur = self.current
    if cur is self.body:
      raise exc
    self.body.exc = exc
    self.body.pred = None
    self.body.quiescing = False
    # park this thread forever (teardown will abort it)
    cur.pred = lambda: False
    cur.what = "parked after failure"
    self.remaining = 1
    self._switch_to(self.body)

  def block(self, pred, timeout=None, what=""):
    """Block the current thread until pred() (returns True) or the virtual timeout
    (returns False)."""
    t = self.current
    if self.aborting:
      if t is not self.body:
        raise Abort()
      return bool(pred())
    self.steps += 1
    if pred():
      return True
    if timeout is not None and timeout <= 0:
      return False
    t.pred = pred
    t.what = what
    t.wake = None if timeout is None else self.now + timeout
    try:
      while True:
        nxt = self._pick_next()
        if nxt is not t:
          self._switch_to(nxt)
        else:
          self._resumed(t)
        if t.pred():
          return True
        if t.wake is not None and t.wake <= self.now:
          return False
        # spurious (e.g. woken to receive an exception that was cleared): loop
    finally:
      t.pred = None
      t.wake = None
      t.what = None

  def finish_current(self, vt):
    """Called by a virtual thread's bootstrap when its target returned."""
    vt.finished = True
    vt.pred = None
    if self.aborting:
      self.current = self.body
      self.body.sem.release()
      return
    nxt = self._pick_next()
    self.switches += 1
    self.current = nxt
    nxt.sem.release()

  # ------------------------------------------------------------------ body API
  def quiesce(self, horizon=None):
    """Body only: wait until every other thread is blocked or finished and no timer
    is due at or before `horizon` (virtual seconds, absolute; None = do not let time
    pass).  Returns the virtual time."""
    t = self.current
    assert t is self.body, "quiesce is for the body thread"
    if self.aborting:
      return self.now
    t.quiescing = True
    t.horizon = self.now if horizon is None else horizon
    t.what = "quiesce"
    try:
      nxt = self._pick_next()
      if nxt is not t:
        self._switch_to(nxt)
      else:
        self._resumed(t)
    finally:
      t.quiescing = False
      t.horizon = None
      t.what = None
    return self.now

  def sleep_until(self, when):
    return self.quiesce(horizon=when)

  def wake_at(self, when):
    """Body: sleep like an ordinary thread until virtual time `when`; unlike quiesce the
    body then competes with the threads whose timers expire at the same instant."""
    if when > self.now:
      self.block(lambda: False, when - self.now, what="wake_at(%s)" % when)
    return self.now

  def others_alive(self):
    return [t for t in self.threads if t is not self.body and t.started and not t.finished]

  def blocked_info(self):
    return dict((t.name, t.what) for t in self.threads if t.started and not t.finished and t.pred)


def vcurrent_thread():
  """Stand-in for threading.current_thread inside miros modules."""
  s = CUR
  if s is None or s.current is None or getattr(s.current, "vthread", None) is None:
    return _threading.current_thread()
  return s.current.vthread


def guarded_run(s, body, repo_dir=None):
  """s.run(body), with exceptions that come out of miros code (an API call made by the body
  raised) turned into PropertyViolation; anything else is a harness error."""
  from .common import PropertyViolation, HarnessBound, REPO
  import os
  root = os.path.join(repo_dir or REPO, "miros") + os.sep
  try:
    return s.run(body)
  except (Deadlock, StepLimit, PropertyViolation, HarnessBound):
    raise
  except Exception as e:
    tb = e.__traceback__
    in_miros = False
    while tb is not None:
      if tb.tb_frame.f_code.co_filename.startswith(root):
        in_miros = True
      tb = tb.tb_next
    if in_miros:
      raise PropertyViolation("a call into miros raised %s: %s" % (type(e).__name__, e), "raised-by-miros")
    raise


def sched():
  if CUR is None:
    raise RuntimeError("virtual primitive used outside a scheduler run")
  return CUR


# ====================================================================== primitives
class RawCarrier:
  """What the scheduler keeps about an OS thread that was not made by the threading module."""

  def __init__(self, name):
    self.name = name
    self.ident = None


class VThread:
  _count = 0

  def __init__(self, group=None, target=None, name=None, args=(), kwargs=None, daemon=None):
    VThread._count += 1
    self._target = target
    self._args = tuple(args)
    self._kwargs = dict(kwargs or {})
    self._name = str(name) if name is not None else "Thread-%d" % VThread._count
    self._daemon = bool(daemon) if daemon is not None else False
    self._vt = None
    self._sched = None

  # attribute protocol of threading.Thread that miros uses
  @property
  def name(self):
    return self._name

  @name.setter
  def name(self, value):
    self._name = str(value)
    if self._vt is not None:
      self._vt.name = self._name
      if self._vt.real is not None:
        self._vt.real.name = self._name

  @property
  def daemon(self):
    return self._daemon

  @daemon.setter
  def daemon(self, value):
    if self._vt is not None:
      raise RuntimeError("cannot set daemon status of active thread")
    self._daemon = bool(value)

  @property
  def ident(self):
    return None if self._vt is None else self._vt.tid

  def run(self):
    if self._target is not None:
      self._target(*self._args, **self._kwargs)

  def start(self):
    s = sched()
    if self._vt is not None:
      raise RuntimeError("threads can only be started once")
    vt = VT(len(s.threads), self._name)
    vt.vthread = self
    self._vt = vt
    self._sched = s
    s.threads.append(vt)

    def boot():
      vt.sem.acquire()
      try:
        if not s.aborting:
          sys.settrace(s._global_trace)
          try:
            self.run()
          except Abort:
            pass
          except BaseException as e:          # noqa: the thread died with an error
            s.thread_errors.append((vt.name, e, traceback.format_exc()))
      finally:
        sys.settrace(None)
        s.finish_current(vt)
    if s.raw_threads:
      import _thread
      vt.real = RawCarrier(self._name)
      vt.real.ident = _thread.start_new_thread(boot, ())
    else:
      # the OS thread carries the virtual thread's name, so threading.current_thread().name agrees
      vt.real = _threading.Thread(target=boot, daemon=True, name=self._name)
      vt.real.start()
    vt.started = True
    s.point()

  def is_alive(self):
    return self._vt is not None and self._vt.started and not self._vt.finished

  def join(self, timeout=None):
    s = sched()
    if self._vt is None:
      raise RuntimeError("cannot join thread before it is started")
    if self._vt is s.current:
      raise RuntimeError("cannot join current thread")
    vt = self._vt
    s.block(lambda: vt.finished, timeout, what="join(%s)" % vt.name)


class VEvent:
  def __init__(self):
    self._flag = False

  def is_set(self):
    sched().point()
    return self._flag

  isSet = is_set

  def set(self):
    sched().point()
    self._flag = True

  def clear(self):
    sched().point()
    self._flag = False

  def wait(self, timeout=None):
    sched().block(lambda: self._flag, timeout, what="Event.wait")
    return self._flag


class VRLock:
  def __init__(self):
    self._owner = None
    self._count = 0

  def acquire(self, blocking=True, timeout=-1):
    if CUR is None:                 # no scheduler: single-threaded use (e.g. sequential cases)
      self._owner, self._count = "unscheduled", self._count + 1
      return True
    s = sched()
    me = s.current
    s.point()
    if self._owner is me:
      self._count += 1
      return True
    if self._owner is None:
      self._owner, self._count = me, 1
      return True
    if not blocking:
      return False
    ok = s.block(lambda: self._owner is None, None if timeout in (-1, None) else timeout,
                 what="RLock.acquire")
    if not ok:
      return False
    self._owner, self._count = s.current, 1
    return True

  def release(self):
    if CUR is None:
      self._count -= 1
      if self._count <= 0:
        self._owner, self._count = None, 0
      return
    s = sched()
    if self._owner is not s.current:
      raise RuntimeError("cannot release un-acquired lock")
    self._count -= 1
    if self._count == 0:
      self._owner = None
    s.point()

  __enter__ = acquire

  def __exit__(self, *a):
    self.release()

  def held_by(self):
    return None if self._owner is None else self._owner.name


class VLock:
  """Non re-entrant lock."""

  def __init__(self):
    self._owner = None

  def acquire(self, blocking=True, timeout=-1):
    if CUR is None:
      if self._owner is not None:
        raise RuntimeError("virtual Lock would block outside a scheduler run")
      self._owner = "unscheduled"
      return True
    s = sched()
    s.point()
    if self._owner is None:
      self._owner = s.current
      return True
    if not blocking:
      return False
    ok = s.block(lambda: self._owner is None, None if timeout in (-1, None) else timeout,
                 what="Lock.acquire")
    if not ok:
      return False
    self._owner = s.current
    return True

  def release(self):
    if self._owner is None:
      raise RuntimeError("release unlocked lock")
    self._owner = None
    if CUR is not None:
      sched().point()

  def locked(self):
    return self._owner is not None

  __enter__ = acquire

  def __exit__(self, *a):
    self.release()


_REAL_LOCK_TYPES = (type(_threading.Lock()), type(_threading.RLock()))


def virtualize_locks(obj):
  """Replace real lock objects held in an object's attributes by virtual ones (objects
  created at import time, before the substitution)."""
  try:
    items = list(vars(obj).items())
  except TypeError:
    return 0
  n = 0
  for k, v in items:
    if isinstance(v, _REAL_LOCK_TYPES):
      setattr(obj, k, VRLock() if isinstance(v, _REAL_LOCK_TYPES[1]) else VLock())
      n += 1
  return n


class _VQueueShell:
  """Blocking shell shared by VQueue and VPriorityQueue; storage comes from the
  standard library class it is mixed into (_init, _qsize, _put, _get)."""

  def __init__(self, maxsize=0):
    self.maxsize = maxsize
    self._init(maxsize)
    self.unfinished_tasks = 0
    # the documented internals of queue.Queue that code may reach for (`with q.mutex:`)
    self.mutex = VLock()

  def qsize(self):
    sched().point()
    return self._qsize()

  def empty(self):
    sched().point()
    return not self._qsize()

  def full(self):
    sched().point()
    return 0 < self.maxsize <= self._qsize()

  def put(self, item, block=True, timeout=None):
    s = sched()
    s.point()
    if self.maxsize > 0:
      if not block:
        if self._qsize() >= self.maxsize:
          raise _queue.Full
      else:
        if timeout is not None and timeout < 0:
          raise ValueError("'timeout' must be a non-negative number")
        if not s.block(lambda: self._qsize() < self.maxsize, timeout, what="Queue.put(full)"):
          raise _queue.Full
    s.atomic += 1
    try:
      self._put(item)           # may call back into traced code (__lt__ of heap items)
    finally:
      s.atomic -= 1
    self.unfinished_tasks += 1

  def get(self, block=True, timeout=None):
    s = sched()
    s.point()
    if not block:
      if not self._qsize():
        raise _queue.Empty
    else:
      if timeout is not None and timeout < 0:
        raise ValueError("'timeout' must be a non-negative number")
      if not s.block(lambda: self._qsize() > 0, timeout, what="Queue.get(empty)"):
        raise _queue.Empty
    s.atomic += 1
    try:
      return self._get()
    finally:
      s.atomic -= 1

  def put_nowait(self, item):
    return self.put(item, block=False)

  def get_nowait(self):
    return self.get(block=False)

  def task_done(self):
    sched().point()
    unfinished = self.unfinished_tasks - 1
    if unfinished < 0:
      raise ValueError("task_done() called too many times")
    self.unfinished_tasks = unfinished

  def join(self):
    sched().block(lambda: self.unfinished_tasks == 0, None, what="Queue.join")


class VQueue(_VQueueShell, _queue.Queue):
  pass


class VPriorityQueue(_VQueueShell, _queue.PriorityQueue):
  pass


class VTime:
  """Stands in for the `time` module inside miros.activeobject."""

  @staticmethod
  def sleep(seconds):
    s = sched()
    if seconds is None or seconds < 0:
      raise ValueError("sleep length must be non-negative")
    s.point()
    if seconds > 0:
      s.block(lambda: False, seconds, what="sleep(%s)" % seconds)

  @staticmethod
  def time():
    return sched().now

  @staticmethod
  def monotonic():
    return sched().now


class VUuid:
  """Deterministic stand-in for the uuid module (ids only name timer threads)."""
  NAMESPACE_DNS = "dns"

  def __init__(self):
    self.n = 0

  def uuid4(self):
    self.n += 1
    return "00000000-0000-4000-8000-%012d" % self.n

  def uuid5(self, ns, name):
    import uuid
    return uuid.uuid5(uuid.NAMESPACE_DNS, name)


# ====================================================================== installation
def miros_files():
  import os
  import miros
  d = os.path.dirname(os.path.abspath(miros.__file__))
  return dict((n[:-3], os.path.join(d, n)) for n in os.listdir(d) if n.endswith(".py"))


def install(fresh=False):
  """Rebind, by identity, the threading primitives miros imported to the virtual ones.
  Returns the miros.activeobject module.  With fresh=True the miros modules are purged
  and re-imported first (a new process image: singletons, registry, classes)."""
  import threading
  import queue
  import time
  if fresh:
    for k in [k for k in sys.modules if k == "miros" or k.startswith("miros.")]:
      del sys.modules[k]
  import miros.activeobject as ao
  import miros.thread_safe_attributes as tsa
  if getattr(ao, "_vf_installed", False):
    return ao
  import miros.event as ev
  import miros.singleton as sg
  import miros.hsm as hsm
  subst = {threading.Thread: VThread, threading.Event: VEvent, queue.Queue: VQueue,
           queue.PriorityQueue: VPriorityQueue, threading.RLock: VRLock, threading.Lock: VLock,
           threading.current_thread: vcurrent_thread}
  for mod in (ao, tsa, ev, sg, hsm):
    for k, v in list(vars(mod).items()):
      for real, virt in subst.items():
        if v is real:
          setattr(mod, k, virt)
  ao.time = VTime
  ao.uuid = VUuid()
  # classes derived from the real primitives at import time are rebuilt
  class SourceThreadEvent(VEvent):
    pass
  ao.SourceThreadEvent = SourceThreadEvent
  ao.FiberThreadEvent.klass = SourceThreadEvent
  # objects made at import time may hold real locks (registries, singleton wrappers), and
  # modules may keep lock objects as globals
  for mod in (ao, ev, sg, hsm, tsa):
    for k, v in list(vars(mod).items()):
      if isinstance(v, _REAL_LOCK_TYPES):
        setattr(mod, k, VRLock() if isinstance(v, _REAL_LOCK_TYPES[1]) else VLock())
      elif not isinstance(v, type) and not isinstance(v, type(sys)):
        virtualize_locks(v)
  ao._vf_installed = True
  reset(ao)
  return ao


def _empty_slot(dec):
  """Forget the instance a singleton wrapper holds.  The shipped wrapper keeps it in `.instance`;
  a tree that keeps it elsewhere is searched for a mapping keyed by the wrapped class (best
  effort - a harness that cannot empty the slot still runs, on whatever instance exists)."""
  try:
    dec.instance = None
    return
  except AttributeError:
    pass
  klass = getattr(dec, "klass", None)
  for holder in (dec, type(dec)):
    for v in list(vars(holder).values()):
      try:
        if klass is not None and hasattr(v, "pop") and klass in v:
          v.pop(klass)
      except Exception:
        pass


def reset(ao=None):
  """Fresh singletons for a new case (fabric, run event, writer)."""
  if ao is None:
    import miros.activeobject as ao
  for dec in (ao.FiberThreadEvent, ao.ActiveFabric, ao.InstrumentionWriter):
    _empty_slot(dec)
  ao.uuid = VUuid()
  VThread._count = 0
