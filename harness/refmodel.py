"""Reference model of UML/Samek hierarchical state machine semantics.

Pure Python over chart data; imports nothing from miros.  Written from the
statements of C01/C02/C03 (exit up to L, enter down to T, follow inits), not from
the implementation.

Chart spec (JSON-able dict):
  n       number of states, indices 0..n-1; -1 is `top`
  parent  parent[i] in {-1} U {0..i-1}
  init    init[i] is None or a proper descendant of i
  react   react[i] = {sig: ["handle"] | ["ignore"] | ["trans", t] | ["decline"] | ["guard", k, t]}
          (absent sig: the state names its parent)
  entry, exit, initc   per-state flags: the handler has that clause
  acts    {"i:KEY": [action, ...]}  KEY in ENTRY/EXIT/INIT/<sig>; actions executed when
          the clause runs (see chartgen)
"""

TOP = -1


class Model:
  def __init__(self, spec):
    self.spec = spec
    self.n = spec["n"]
    self.parent = spec["parent"]
    self.init = spec["init"]
    self.react = spec["react"]
    self.cur = TOP
    self.counters = {}

  # ---- structure
  def path(self, i):
    """i and its ancestors, innermost first, excluding top."""
    out = []
    while i != TOP:
      out.append(i)
      i = self.parent[i]
    return out

  def depth(self, i):
    return len(self.path(i))

  def encloses(self, a, b):
    """a is b or an ancestor of b (top encloses everything)."""
    return a == TOP or a in self.path(b)

  def has_init_clause(self, i):
    return self.spec["initc"][i] or self.init[i] is not None

  # ---- behaviour
  def _init_chain(self, t, seq):
    """INIT on t; follow initial transitions; returns resting state."""
    while True:
      seq.append(("INIT", t))
      tgt = self.init[t]
      if tgt is None:
        return t
      down = []
      x = tgt
      while x != t:
        down.append(x)
        x = self.parent[x]
      for x in reversed(down):
        seq.append(("ENTRY", x))
      t = tgt

  def start(self, s):
    seq = []
    for x in reversed(self.path(s)):
      seq.append(("ENTRY", x))
    self.cur = self._init_chain(s, seq)
    return seq

  def reaction(self, i, sig, advance=True):
    r = self.react[i].get(sig)
    if r is None:
      return ("pass", None)
    if r[0] == "guard":
      k, t = r[1], r[2]
      c = self.counters.get((i, sig), 0)
      if advance:
        self.counters[(i, sig)] = c + 1
      if c % k == 0:
        return ("trans", t)
      return ("decline", None)
    if r[0] == "trans":
      return ("trans", r[1])
    return (r[0], None)

  def step(self, sig):
    """One run-to-completion step.  Returns dict with
    kind: trans|handled|ignored; offers: [(state, outcome)]; seq: clause executions in
    order (SIG offers first, then EXIT/ENTRY/INIT); S, T, L; exits, entries; init_depth."""
    cur = self.cur
    offers = []
    seq = []
    s = cur
    S = T = None
    kind = "ignored"
    while s != TOP:
      out, t = self.reaction(s, sig)
      offers.append((s, out))
      if out != "pass":
        seq.append(("SIG", s, sig, out))
      if out == "handle":
        kind = "handled"
        S = s
        break
      if out == "ignore":
        # the handler answers IGNORED: the search ends here, nothing else happens
        S = s
        break
      if out == "trans":
        kind = "trans"
        S, T = s, t
        break
      s = self.parent[s]
    res = {"kind": kind, "offers": offers, "seq": seq, "S": S, "T": T, "L": None,
           "exits": [], "entries": [], "init_depth": 0, "from": cur}
    if kind != "trans":
      res["to"] = cur
      return res
    if S == T:
      L = self.parent[S]
    elif S in self.path(T):
      L = S
    elif T in self.path(S):
      L = T
    else:
      pt = set(self.path(T))
      L = TOP
      for x in self.path(S):
        if x in pt:
          L = x
          break
    exits = []
    x = cur
    while x != L:
      exits.append(x)
      x = self.parent[x]
    entries = []
    x = T
    while x != L:
      entries.append(x)
      x = self.parent[x]
    entries.reverse()
    if L == T:
      entries = []
    for x in exits:
      seq.append(("EXIT", x))
    for x in entries:
      seq.append(("ENTRY", x))
    n0 = len(seq)
    self.cur = self._init_chain(T, seq)
    res.update(L=L, exits=exits, entries=entries, to=self.cur,
               init_depth=sum(1 for q in seq[n0:] if q[0] == "INIT") - 1)
    return res

  def topology(self, res):
    """Samek's topology class letter for a transition result."""
    S, T = res["S"], res["T"]
    if S == T:
      return "a"
    if self.parent[T] == S:
      return "b"
    if self.parent[S] == self.parent[T]:
      return "c"
    if self.parent[S] == T:
      return "d"
    if S in self.path(T):
      return "e"
    if T in self.path(S):
      return "h"
    if self.parent[S] in self.path(T):
      return "f"
    return "g"


class ModelDeque:
  """Bounded deque + defer list, as the queued-chart properties describe it."""

  def __init__(self, cap):
    self.cap = cap
    self.q = []
    self.deferred = []
    self.overflowed = False

  def post_fifo(self, x):
    if len(self.q) >= self.cap:
      self.overflowed = True
      return False
    self.q.append(x)
    return True

  def post_lifo(self, x):
    if len(self.q) >= self.cap:
      self.overflowed = True
      return False
    self.q.insert(0, x)
    return True

  def defer(self, x):
    if len(self.deferred) >= self.cap:
      self.overflowed = True        # the defer queue is bounded too; beyond it nothing is modelled
      return
    self.deferred.append(x)

  def recall(self):
    if not self.deferred:
      return None
    x = self.deferred.pop(0)
    self.post_fifo(x)
    return x

  def pop(self):
    return self.q.pop(0) if self.q else None
