"""Shared plumbing: paths, seeds, evidence, replays, known findings, Hypothesis driver.

No miros import happens here; `use_repo()` arranges sys.path so that the first
`import miros` anywhere picks up the working tree under test.
"""
import os
import sys
import json
import time
import hashlib
import resource

VERIF = os.path.dirname(os.path.dirname(os.path.abspath(__file__)))
REPO = os.environ.get("MIROS_REPO", "/repo")
EVIDENCE_DIR = os.path.join(VERIF, "evidence")
REPLAY_DIR = os.path.join(VERIF, "replays")
KNOWN_FILE = os.path.join(VERIF, "known_findings.json")
WORK_DIR = os.path.join(VERIF, ".work")


class HarnessError(Exception):
  """Something is wrong with the harness itself (exit 2, never a VIOLATION)."""


class HarnessBound(BaseException):
  """Raised from inside miros-hosted code when a call-count bound is exceeded.

  BaseException so that `except Exception` in code under test lets it through."""


class PropertyViolation(Exception):
  def __init__(self, msg, bucket=None):
    super().__init__(msg)
    self.msg = msg
    self.bucket = bucket


def seed_value():
  try:
    return int(os.environ.get("VERIF_SEED", "1"))
  except ValueError:
    return 1


def use_repo():
  """Make `import miros` resolve to the tree under test and limit memory."""
  if REPO in sys.path:
    sys.path.remove(REPO)
  sys.path.insert(0, REPO)
  limit = int(os.environ.get("VERIF_RLIMIT_AS_GB", "6")) * (1 << 30)
  try:
    soft, hard = resource.getrlimit(resource.RLIMIT_AS)
    if hard != resource.RLIM_INFINITY:
      limit = min(limit, hard)
    resource.setrlimit(resource.RLIMIT_AS, (limit, hard))
  except (ValueError, OSError):
    pass
  try:
    # hundreds of parked threads per case: keep glibc from reserving an arena (64 MB of address
    # space) for each of them, which would exhaust RLIMIT_AS long before any real memory is used
    import ctypes
    ctypes.CDLL("libc.so.6").mallopt(-8, 2)      # M_ARENA_MAX = 2
  except Exception:
    pass
  import miros  # noqa: F401
  got = os.path.dirname(os.path.dirname(os.path.abspath(miros.__file__)))
  if os.path.realpath(got) != os.path.realpath(REPO):
    raise HarnessError("miros imported from %s, expected %s" % (got, REPO))


def digest(obj):
  s = json.dumps(obj, sort_keys=True, default=str)
  return hashlib.sha1(s.encode("utf-8")).hexdigest()[:16]


class Stats:
  """Per-run counters: evaluations, distinct non-trivial digests, class histogram, samples."""

  def __init__(self, max_samples=5):
    self.evaluations = 0
    self.nontrivial = set()
    self.classes = {}
    self.samples = []
    self.max_samples = max_samples
    self.excluded = {}
    self.notes = []

  def case(self, case, nontrivial, classes=()):
    self.evaluations += 1
    for c in classes:
      self.classes[c] = self.classes.get(c, 0) + 1
    if nontrivial:
      d = digest(case)
      if d not in self.nontrivial:
        self.nontrivial.add(d)
        if len(self.samples) < self.max_samples:
          self.samples.append(case)

  def exclude(self, why, n=1):
    self.excluded[why] = self.excluded.get(why, 0) + n

  def to_json(self):
    return {
      "evaluations": self.evaluations,
      "nontrivial_digests": sorted(self.nontrivial),
      "classes": self.classes,
      "samples": self.samples,
      "excluded": self.excluded,
      "notes": self.notes,
    }

  @staticmethod
  def merge(parts, max_samples=5):
    s = Stats(max_samples)
    for p in parts:
      s.evaluations += p["evaluations"]
      s.nontrivial.update(p["nontrivial_digests"])
      for k, v in p["classes"].items():
        s.classes[k] = s.classes.get(k, 0) + v
      for k, v in p["excluded"].items():
        s.excluded[k] = s.excluded.get(k, 0) + v
      for x in p["samples"]:
        if len(s.samples) < max_samples:
          s.samples.append(x)
      for n in p.get("notes", []):
        if n not in s.notes:
          s.notes.append(n)
    return s


def write_evidence(pid, tier, seed, stats, rule, assumptions, wall_s, violations,
                   extra=None, level="exploration"):
  os.makedirs(EVIDENCE_DIR, exist_ok=True)
  cov = {
    "evaluations": stats.evaluations,
    "distinct_nontrivial": len(stats.nontrivial),
    "rule": rule,
    "samples": stats.samples if stats.samples else [],
    "classes": dict(sorted(stats.classes.items())),
    "excluded": stats.excluded,
  }
  if stats.notes:
    cov["notes"] = stats.notes
  if extra:
    cov.update(extra)
  ev = {
    "property_id": pid,
    "tier": tier,
    "seed": seed,
    "level": level,
    "coverage": cov,
    "assumptions": assumptions,
    "wall_s": round(wall_s, 3),
    "violations": violations,
  }
  path = os.path.join(EVIDENCE_DIR, pid + ".json")
  tmp = path + ".tmp"
  with open(tmp, "w") as f:
    json.dump(ev, f, indent=1, sort_keys=True, default=str)
    f.write("\n")
  os.replace(tmp, path)
  return path


def write_replay(pid, case, msg, bucket=None):
  os.makedirs(REPLAY_DIR, exist_ok=True)
  body = {"property_id": pid, "case": case, "message": msg, "bucket": bucket}
  path = os.path.join(REPLAY_DIR, "%s-%s.json" % (pid, digest(case)))
  with open(path, "w") as f:
    json.dump(body, f, indent=1, sort_keys=True, default=str)
    f.write("\n")
  return path


def load_known(pid):
  """Entries of known_findings.json for one property.

  {"findings": [{"property": "C09", "bucket": "...", "what": "...", "case": {...}}],
   "fixed": ["fixed: property=C01 <commit> <what failed>"]}
  """
  if not os.path.exists(KNOWN_FILE):
    return []
  with open(KNOWN_FILE) as f:
    data = json.load(f)
  return [k for k in data.get("findings", []) if k.get("property") == pid]


def hyp_explore(strategy, check, max_examples, seed, shrink=True, stateful_steps=None):
  """Drive `check(case)` with Hypothesis.

  `check` returns None (held) or raises PropertyViolation. Returns
  (case, PropertyViolation) for the shrunk failure or None. Any other exception is a
  harness error and propagates.
  """
  from hypothesis import given, settings, HealthCheck, Phase
  from hypothesis import seed as hseed
  phases = [Phase.generate] + ([Phase.shrink] if shrink else [])
  last = {}

  @hseed(seed)
  @settings(max_examples=max_examples, deadline=None, database=None,
            derandomize=False, report_multiple_bugs=False, phases=phases,
            suppress_health_check=list(HealthCheck), print_blob=False)
  @given(strategy)
  def prop(case):
    try:
      check(case)
    except PropertyViolation as v:
      last["f"] = (case, v)
      raise

  import hypothesis.errors as herr
  try:
    prop()
  except PropertyViolation:
    return last["f"]
  except herr.Flaky:
    # a violation was observed on the real code but did not repeat when the same case was
    # run again (allocator- or address-dependent behaviour): report what was observed
    if "f" in last:
      case, v = last["f"]
      return case, PropertyViolation(v.msg + " [observed once; the same case did not fail when re-run]", v.bucket)
    raise
  return None


class Timer:
  def __init__(self):
    self.t0 = time.monotonic()

  def wall(self):
    return time.monotonic() - self.t0
