"""C18 - instrumentation never changes chart behaviour (differential across configurations)."""
import itertools
from hypothesis import strategies as st

from ..run import Prop
from ..common import PropertyViolation, HarnessBound
from .. import chartgen, hsmcheck
from ..refmodel import Model

HOSTS = ["plain", "instr", "queued", "queued_off"]


def configs():
  out = []
  for deco in (False, True, "other", "mixed_even", "mixed_odd"):
    for host in HOSTS:
      if str(deco).startswith("mixed") and host == "queued_off":
        continue
      if host.startswith("queued"):
        for ls, lt in itertools.product((False, True), repeat=2):
          for drive in ("dispatch", "post"):
            for poll in (False, True):
              if poll and str(deco).startswith("mixed"):
                continue      # what the logs of a partly decorated chart contain is nobody's claim
              out.append({"deco": deco, "host": host, "live_spy": ls, "live_trace": lt,
                          "drive": drive, "poll": poll})
          # all events queued first, then ONE complete_circuit runs them
          out.append({"deco": deco, "host": host, "live_spy": ls, "live_trace": lt,
                      "drive": "batch", "poll": False})
      else:
        out.append({"deco": deco, "host": host, "live_spy": False, "live_trace": False,
                    "drive": "dispatch", "poll": False})
    # a started active object (deterministic scheduler, round-robin), live output through the writer
    out.append({"deco": deco, "host": "ao", "live_spy": True, "live_trace": True, "drive": "post", "poll": False})
    # the same, left to invent its own name
    out.append({"deco": deco, "host": "ao", "live_spy": False, "live_trace": True, "drive": "post", "poll": False,
                "anonymous": True})
    # live output switched on only after the chart was started (a running system being looked into)
    out.append({"deco": deco, "host": "ao", "live_spy": True, "live_trace": True, "drive": "post", "poll": False,
                "late_live": True})
    out.append({"deco": deco, "host": "queued", "live_spy": True, "live_trace": True, "drive": "post", "poll": False,
                "late_live": True})
  return out


CONFIGS = configs()


def transcript_ao(case, cfg):
  """The same transcript with the chart hosted on a started ActiveObject."""
  from miros.event import Event, signals
  from .. import detsched
  ao = detsched.install()
  detsched.reset(ao)
  files = detsched.miros_files()
  rt = chartgen.build(case["spec"], decorate=cfg["deco"])
  sink = []

  def body(s):
    chart = chartgen.bounded(ao.ActiveObject)(name=None if cfg.get("anonymous") else "vfhost")
    if not cfg.get("late_live"):
      chart.live_spy, chart.live_trace = cfg["live_spy"], cfg["live_trace"]
    chart.register_live_spy_callback(sink.append)
    chart.register_live_trace_callback(sink.append)
    out = []
    chart.start_at(rt.fns[case["start"]])
    s.quiesce()
    if cfg.get("late_live"):
      chart.live_spy, chart.live_trace = cfg["live_spy"], cfg["live_trace"]
    out.append((list(rt.log), chart.state_name))
    for sig in case["events"]:
      rt.clear()
      chart.post_fifo(Event(signal=signals[sig]))
      s.quiesce()
      out.append((list(rt.log), chart.state_name))
    return out
  s = detsched.Scheduler(schedule=[], step_limit=400000, trace_files=[files["activeobject"]])
  try:
    out = detsched.guarded_run(s, body)
  except (detsched.Deadlock, detsched.StepLimit) as ex:
    return [("no quiescence", str(ex))]
  except PropertyViolation as ex:
    return [("raised", ex.msg)]
  except HarnessBound as ex:
    return [("did not terminate", str(ex))]
  if s.thread_errors:
    n_, e, tb = s.thread_errors[0]
    return [("thread died", "%s: %s" % (type(e).__name__, e))]
  return out


def transcript(case, cfg):
  """Run the case under one configuration; returns a list with one entry per phase
  (start, then each event): (action log, resting state name) or an error marker."""
  if cfg["host"] == "ao":
    return transcript_ao(case, cfg)
  from miros.event import Event, signals
  rt = chartgen.build(case["spec"], decorate=cfg["deco"])
  chart = hsmcheck.make_host(cfg["host"])
  sink = []
  if cfg["host"].startswith("queued"):
    if not cfg.get("late_live"):
      chart.live_spy = cfg["live_spy"]
      chart.live_trace = cfg["live_trace"]
    chart.register_live_spy_callback(sink.append)
    chart.register_live_trace_callback(sink.append)
  out = []
  try:
    chart.start_at(rt.fns[case["start"]])
    out.append((list(rt.log), chart.state_name))
    if cfg.get("late_live"):
      chart.live_spy, chart.live_trace = cfg["live_spy"], cfg["live_trace"]
    if cfg["drive"] == "batch":
      rt.clear()
      for sig in case["events"]:
        chart.post_fifo(Event(signal=signals[sig]))
      chart.complete_circuit()
      out.append((list(rt.log), chart.state_name))
      return out
    for sig in case["events"]:
      rt.clear()
      e = Event(signal=signals[sig])
      if cfg["drive"] == "post":
        chart.post_fifo(e)
        chart.complete_circuit()
      else:
        chart.dispatch(e)
      out.append((list(rt.log), chart.state_name))
      if cfg["poll"]:
        # read-only observers a user may call between steps
        chart.current_state()
        chart.spy()
        chart.trace()
        chart.spy_rtc()
  except HarnessBound as ex:
    out.append(("did not terminate", str(ex)))
  except Exception as ex:
    out.append(("raised", "%s: %s" % (type(ex).__name__, ex)))
  return out


def cfg_name(c):
  return "%s/%s%s%s/%s%s" % ({False: "bare", True: "decorated", "other": "other-decorator",
                              "mixed_even": "even-states-decorated", "mixed_odd": "odd-states-decorated"}[c["deco"]],
                             c["host"], "+live_spy" if c["live_spy"] else "",
                             "+live_trace" if c["live_trace"] else "", c["drive"],
                             ("+polled" if c["poll"] else "") + ("+anonymous" if c.get("anonymous") else "") +
                             ("+live_switched_on_after_start" if c.get("late_live") else ""))


class C18(Prop):
  id = "C18"
  quick_examples = 300
  thorough_examples = 1500
  rule = ("Hypothesis-generated chart x start state x event list, each executed under %d "
          "configurations: {no decorator, the spy decorator on every state, on the even-numbered or on the odd-numbered states only, some other functools.wraps decorator} x "
          "{plain, instrumented, queued with instrumentation on/off} x {live spy} x {live trace} x "
          "{dispatch directly / post + complete_circuit per event / all events posted and run by one complete_circuit} x {read-only observers current_state(), "
          "spy(), trace(), spy_rtc() polled between steps or not} and {a started ActiveObject under the deterministic scheduler, with live output through its writer thread}, and on both kinds of host live output that is switched on only after start_at. "
          "Differential oracle: the handlers' action log (entries, exits, inits, user-signal "
          "clauses) and the resting state after start_at and after every event are identical in "
          "every configuration. Non-trivial: the case contains >=1 transition with "
          "|exits|+|entries| >= 2 (by the reference model) compared across >=4 configurations; "
          "distinct = distinct case digests. One scripted case is a chain of 130 nested states started at the innermost one "
          "(steps whose spy log exceeds the 250-line per-step buffer)." % len(CONFIGS))
  assumptions = [
    "live output goes to harness callbacks; their content is checked by C21, not here",
    "if every configuration agrees but differs from the reference model the case is counted "
    "under excluded (C01/C02 domain), not reported here",
  ]

  def strategy(self, tier):
    return chartgen.chart_case(max_events=8, max_states=10)

  def extra(self, tier, seed, shard, nshards, stats):
    """Very deep charts: a chain of 130 nested states started at the innermost one (a start_at
    and a transition whose spy log is longer than the 250 lines the per-step buffer keeps)."""
    if shard != 0:
      return
    for n, styles in ((130, ("function",)),):
      for style in styles:
        spec = {"n": n, "parent": [i - 1 for i in range(n)], "init": [None] * n,
                "react": [{} for _ in range(n)], "sigs": ["VA", "VB"],
                "entry": [True] * n, "exit": [True] * n, "initc": [False] * n, "spy": True, "acts": {},
                "style": style}
        spec["react"][n - 1]["VB"] = ["trans", 0]
        spec["react"][0]["VA"] = ["trans", n - 1]
        spec["react"][5]["VB"] = ["handle"]
        case = {"spec": spec, "start": n - 1, "events": ["VA", "VB", "VA", "VB", "VB"]}
        try:
          self.check(case, stats)
        except PropertyViolation as v:
          yield case, v
          return
    stats.classes["chain_of_130_states"] = 1

  def check(self, case, stats):
    model = Model(case["spec"])
    model.start(case["start"])
    deep = False
    for sig in case["events"]:
      res = model.step(sig)
      if res["kind"] == "trans" and len(res["exits"]) + len(res["entries"]) >= 2:
        deep = True
    base = transcript(case, CONFIGS[0])
    stats.case(case, deep, ["configs_%d" % len(CONFIGS)] + (["deep_transition"] if deep else []))
    # what a batch run must show: the start, then every event's actions in one piece
    flat = base
    if len(base) == len(case["events"]) + 1 and all(isinstance(b[0], list) for b in base):
      flat = [base[0], (sum((b[0] for b in base[1:]), []), base[-1][1])]
    for cfg in CONFIGS[1:]:
      t = transcript(case, cfg)
      if cfg["drive"] == "batch":
        if t != flat:
          k = 0 if t[:1] != flat[:1] else 1
          raise PropertyViolation(
            "%s: %s gives %s (event by event, joined) but %s gives %s" % (
              "start_at" if k == 0 else "events %s run by one complete_circuit" % case["events"],
              cfg_name(CONFIGS[0]), flat[k] if k < len(flat) else None, cfg_name(cfg),
              t[k] if k < len(t) else None), "C18:differs")
        continue
      if t != base:
        k = next(i for i in range(max(len(t), len(base)))
                 if i >= len(t) or i >= len(base) or t[i] != base[i])
        what = "start_at" if k == 0 else "event %d (%s)" % (k - 1, case["events"][k - 1]) \
            if k - 1 < len(case["events"]) else "after the last event"
        a = base[k] if k < len(base) else None
        b = t[k] if k < len(t) else None
        raise PropertyViolation(
          "%s: %s gives %s but %s gives %s" % (what, cfg_name(CONFIGS[0]), a, cfg_name(cfg), b),
          "C18:differs")


PROP = C18
