"""C08 - the fabric delivers by priority, and equal priorities in publish order."""
from hypothesis import strategies as st

from ..run import Prop
from ..common import PropertyViolation
from .. import detsched
from .c04 import schedule_st

SIGS = ["VA", "VB"]


class StampedRecorder:
  def __init__(self):
    self.items = []     # (id, step)

  def append(self, e):
    self.items.append((e.payload, detsched.sched().steps))


@st.composite
def burst_case(draw):
  n = draw(st.integers(2, 9))
  prios = draw(st.sampled_from([[1000], [1, 2], [1, 2, 3], [5, 5, 7], [None, 1]]))
  pubs = [[draw(st.sampled_from(SIGS)), draw(st.sampled_from(prios))] for _ in range(n)]
  # the "make the event once, publish it many times" idiom: some publications hand the fabric the
  # very Event object of an earlier one (same signal and priority)
  reuse = []
  if draw(st.integers(0, 2)) == 0:
    root = {}
    for i in range(1, n):
      if draw(st.integers(0, 2)) == 0:
        j = draw(st.integers(0, i - 1))
        j = root.get(j, j)
        root[i] = j
        pubs[i] = list(pubs[j])
        reuse.append([i, j])
  # the body keeps the baton for long stretches so that the delivery threads lag behind
  lag = draw(st.lists(st.tuples(st.just(0), st.integers(50, 400)), max_size=3))
  sched_ = [list(x) for x in lag] + [list(x) for x in draw(schedule_st)]
  return {"pubs": pubs, "schedule": sched_, "publishers": 1 if reuse else draw(st.sampled_from([1, 1, 2])),
          "reuse": reuse,
          # publish through the fabric directly, or through a (decorated / undecorated) active object
          "via": draw(st.sampled_from(["fabric", "fabric", "ao_decorated", "ao_undecorated", "ao_not_yet_started"])),
          "before_start": draw(st.sampled_from([0, 0, 1, 2, 3, 4])),
          # a long-lived process: this many publications were made before the case starts
          "published_before": draw(st.sampled_from([None, None, 2 ** 15 - 3, 2 ** 16 - 4, 2 ** 31 - 3, 2 ** 32 - 5,
                                                    2 ** 63 - 4]))}


class C08(Prop):
  id = "C08"
  quick_examples = 500
  thorough_examples = 6000
  rule = ("Generated bursts of 2-9 publications (signal, priority from a small set so that equal "
          "priorities are common; None = default; in a third of the cases the process has already made 2^15..2^63 publications, simulated by advancing the library's publication counter) made by the body thread - through the fabric or through a decorated or "
          "undecorated active object's publish() - in a third of the bursts some publications hand over the very Event object of an earlier one (make once, publish many times) - (optionally split over "
          "two publisher threads; the first 0-4 of them before the fabric is started, so that they "
          "are waiting in it when it starts) against the real ActiveFabric under the deterministic scheduler; "
          "schedules begin with long body segments so that several events wait in the fabric at "
          "once. One stamped harness recorder is subscribed fifo and one lifo to every signal, so "
          "each delivery thread's order is observed directly. Oracle, sound under any lag: (E) if "
          "x and y have equal priority and publish(x) returned before publish(y) was invoked, x is "
          "delivered before y; (P) if prio(x) < prio(y) but y was delivered first, then publish(x) "
          "must have returned after the delivery preceding y (or, if y was the first delivery, "
          "after publish(y) was invoked) - otherwise x was waiting and should have gone first; "
          "every publication is delivered exactly once per kind. Non-trivial: >=3 equal-priority "
          "events were waiting at once (>=3 publishes returned between two consecutive "
          "deliveries); distinct = distinct case digests.")
  assumptions = ["virtual primitives; line-granularity pre-emption in miros/activeobject.py",
                 "heap operations of the fabric's priority queues are atomic (the real queue holds a mutex)"]

  def strategy(self, tier):
    return burst_case()

  def check(self, case, stats):
    ao = detsched.install()
    detsched.reset(ao)
    from miros.event import Event, signals
    files = detsched.miros_files()
    for s_ in SIGS:
      signals.append(s_)
    pubs = {}     # id -> dict(prio, inv, ret)
    recs = {"fifo": StampedRecorder(), "lifo": StampedRecorder()}
    if case.get("published_before") is not None and hasattr(ao.FabricEvent, "sequence"):
      # stand in for the publications of a long-lived process by advancing the library's own
      # publication counter (miros.activeobject.FabricEvent.sequence, an itertools.count)
      import itertools
      ao.FabricEvent.sequence = itertools.count(case["published_before"])

    late_start = []
    reuse = dict((i, j) for i, j in case.get("reuse") or [])
    evobj, chain = {}, {}

    def body(s):
      af = ao.ActiveFabric()
      for sig in SIGS:
        af.subscribe(recs["fifo"], Event(signal=signals[sig]), queue_type="fifo")
        af.subscribe(recs["lifo"], Event(signal=signals[sig]), queue_type="lifo")
      publisher = af
      if case.get("via", "fabric") != "fabric":
        from .. import aocheck
        rec_ = aocheck.Rec()
        publisher = aocheck.make_ao_class(rec_)(name="vfpub")
        if case["via"] == "ao_not_yet_started":
          # the object publishes before it is started (its requests wait in its own queue), and is
          # started when the fabric is
          late_start.append(lambda: publisher.start_at(aocheck.flat_chart(rec_, decorate=True)))
        else:
          publisher.start_at(aocheck.flat_chart(rec_, decorate=case["via"] == "ao_decorated"))
        if case["via"] == "ao_not_yet_started":
          pass
        elif case.get("before_start", 0):
          af.stop()          # the object started the fabric: stop it so that publications can wait in it
        else:
          s.quiesce()

      def publish_range(ids):
        for i in ids:
          sig, prio = case["pubs"][i]
          p = {"prio": 1000 if prio is None else prio, "inv": s.steps, "ret": None}
          pubs[i] = p
          if i in reuse:
            ev = evobj[reuse[i]]            # the same Event object again
            chain[reuse[i]].append(i)
          else:
            ev = evobj[i] = Event(signal=signals[sig], payload=i)
            chain[i] = [i]
          if prio is None:
            publisher.publish(ev)
          else:
            publisher.publish(ev, priority=prio)
          p["ret"] = s.steps
      n = len(case["pubs"])
      # some publications are made before the fabric is started: they wait in it
      b = min(case.get("before_start", 0), n)
      publish_range(range(b))
      af.start()
      for f_ in late_start:
        f_()
      if not b or late_start:
        s.quiesce()
      if case["publishers"] == 1:
        publish_range(range(b, n))
      else:
        ts = [ao.Thread(target=publish_range, args=(range(b + k, n, 2),), name="pub%d" % k) for k in (0, 1)]
        for t in ts:
          t.start()
        for t in ts:
          t.join()
      s.quiesce()

    s = detsched.Scheduler(schedule=case["schedule"], step_limit=400000,
                           trace_files=[files["activeobject"]])
    try:
      detsched.guarded_run(s, body)
    except (detsched.Deadlock, detsched.StepLimit) as e:
      raise PropertyViolation("no quiescence: %s" % e, "C08:liveness")
    if s.thread_errors:
      name, e, tb = s.thread_errors[0]
      raise PropertyViolation("thread %s died: %s: %s" % (name, type(e).__name__, e), "C08:thread-error")
    waiting3 = False
    # publications REQUESTED through an object whose thread does not run yet wait in that object's
    # own queue, not in the fabric
    requested_early = set(range(min(case.get("before_start", 0), len(case["pubs"])))) \
        if case.get("via") == "ao_not_yet_started" else set()
    for kind, r in recs.items():
      if reuse:
        # the n-th delivery of an Event object that was published several times (same priority,
        # one publisher) stands for its n-th publication: the objects are one and the same, no
        # other assignment could be told apart
        seen, items = {}, []
        for root, step in r.items:
          n_ = seen.get(root, 0)
          seen[root] = n_ + 1
          ids = chain.get(root, [root])
          items.append((ids[n_] if n_ < len(ids) else -1 - root, step))
        r.items = items
      order = [i for i, _ in r.items]
      if sorted(order) != sorted(pubs):
        raise PropertyViolation("%s subscriber received %s for publications %s" % (
          kind, order, sorted(pubs)), "C08:delivery")
      stamp = dict(r.items)
      pos = dict((i, k) for k, i in enumerate(order))
      for k in range(len(order)):
        lo = r.items[k - 1][1] if k else -1
        hi = r.items[k][1]
        byprio = {}
        for i, p in pubs.items():
          if lo < p["ret"] <= hi or (k == 0 and p["ret"] <= hi):
            byprio[p["prio"]] = byprio.get(p["prio"], 0) + 1
        if any(v >= 3 for v in byprio.values()):
          waiting3 = True
      for x in pubs:
        for y in pubs:
          if x == y or pos[y] > pos[x]:
            continue
          # y was delivered before x
          px, py = pubs[x], pubs[y]
          if px["prio"] == py["prio"] and px["ret"] < py["inv"]:
            early = x in requested_early and y in requested_early
            if self.violation(stats, "%s thread: publication %d (priority %s) was published before %d "
                              "(same priority) but delivered after it; delivery order %s%s" % (
                                kind, x, px["prio"], y, order,
                                " (both requested through an object that had not been started yet)" if early else ""),
                              "C08:requests-before-start-reversed" if early else "C08:equal-priority-order") is False:
              continue
            return stats.case(case, waiting3, ["publishers_%d" % case["publishers"]])
          if px["prio"] < py["prio"] and x not in requested_early:
            k = pos[y]
            bound = r.items[k - 1][1] if k else py["inv"]
            if px["ret"] <= bound:
              raise PropertyViolation(
                "%s thread: publication %d (priority %s) was waiting (publish returned at step %d) "
                "when %d (priority %s) was taken after step %d, yet %d went first; order %s" % (
                  kind, x, px["prio"], px["ret"], y, py["prio"], bound, y, order), "C08:priority")
    stats.case(case, waiting3, ["publishers_%d" % case["publishers"]] + (["three_equal_waiting"] if waiting3 else []) +
               (["same_event_object_published_again"] if reuse else []))


PROP = C08
