"""C22 - is_in and child_state answer from the active state path and change nothing."""
from hypothesis import strategies as st

from ..run import Prop
from ..common import PropertyViolation, HarnessBound
from .. import chartgen, hsmcheck
from ..refmodel import Model, TOP
from ..hsmcheck import name_of


class C22(Prop):
  id = "C22"
  quick_examples = 1200
  thorough_examples = 15000
  rule = ("Metamorphic twins: a Hypothesis-generated chart x start state x event list is run twice "
          "on the same kind of host (plain/instrumented/queued; decorated, not decorated or only partly decorated); one twin has "
          "generated is_in / child_state queries (argument: any state of the chart, top, or - one in six - the same-named state function of another chart built from the same recipe, which is no state of this chart) "
          "interleaved after start_at and between events. Oracle: is_in(X) is true iff X is on the "
          "reference model's active path (X = current state, an ancestor, or top); child_state(P) "
          "returns the model's child of P on that path (the current state when P is current) and "
          "raises when P does not enclose the current state; the twins' handler action logs, "
          "resting states, state_name/state_fn and the chart's instrumentation switches stay identical step by step and after every query. Non-trivial: >=1 query issued from a current "
          "state of depth >=3 whose argument does not enclose it; distinct = distinct case digests.")
  assumptions = [
    "the exception type of a failing child_state is not constrained (any Exception counts as 'fails')",
    "state_name/state_fn after a query are compared with the unqueried twin's (by name)",
  ]

  def strategy(self, tier):
    hosts = st.sampled_from(["plain", "instr", "queued", "queued_off"])

    @st.composite
    def case(draw):
      c = draw(chartgen.chart_case(max_events=8))
      c["host"] = draw(hosts)
      mixed = draw(st.sampled_from([None, None, None, "mixed_even", "mixed_odd"]))
      if mixed and c["spec"]["spy"]:
        c["spec"] = dict(c["spec"], spy=mixed)      # only some state functions wear the decorator
      n = c["spec"]["n"]
      qs = {}
      for k in range(-1, len(c["events"])):
        if draw(st.integers(0, 2)) > 0:
          qs[str(k)] = [[draw(st.sampled_from(["is_in", "child_state"])), draw(st.integers(-1, n - 1))] +
                        (["twin"] if draw(st.integers(0, 5)) == 0 else [])
                        for _ in range(draw(st.integers(1, 3)))]
      c["queries_after"] = qs
      return c
    return case()

  def expected(self, model, q):
    path = model.path(model.cur)     # innermost first, without top
    x = q[1]
    if len(q) > 2 and q[2] == "twin" and x != TOP:
      # a function of ANOTHER chart built from the same recipe (same name, not this chart's state):
      # it is neither the current state nor encloses it
      return ("ok", False) if q[0] == "is_in" else ("raised", None)
    if q[0] == "is_in":
      return ("ok", x == TOP or x in path)
    if x == TOP:
      return ("ok", path[-1])
    if x not in path:
      return ("raised", None)
    k = path.index(x)
    return ("ok", path[k - 1] if k > 0 else x)

  def check(self, case, stats):
    from miros.event import Event, signals
    spec = case["spec"]
    deco = spec["spy"]
    model = Model(spec)
    twins = []
    for _ in range(2):
      rt = chartgen.build(spec, decorate=deco)
      chart = hsmcheck.make_host(case["host"])
      twins.append((rt, chart))
    (rq, cq), (rp, cp) = twins
    rq.twin_fns = chartgen.build(spec, decorate=deco).fns
    qs = case.get("queries_after") or {}
    nontrivial, classes = False, ["host_" + case["host"]]
    try:
      model.start(case["start"])
      cq.start_at(rq.fns[case["start"]])
      cp.start_at(rp.fns[case["start"]])
      for k in range(-1, len(case["events"])):
        if k >= 0:
          sig = case["events"][k]
          model.step(sig)
          rq.clear()
          rp.clear()
          cq.dispatch(Event(signal=signals[sig]))
          cp.dispatch(Event(signal=signals[sig]))
          where = "event %d (%s)" % (k, sig)
        else:
          where = "start_at"
        if rq.log != rp.log or cq.state_name != cp.state_name:
          raise PropertyViolation(
            "%s: the queried twin ran %s and rests in %s; the unqueried twin ran %s and rests in %s" % (
              where, rq.log, cq.state_name, rp.log, cp.state_name), "C22:changes")
        if cq.state_name != name_of(model.cur):
          stats.exclude("desync_with_model(C01 domain)")
          break
        for q in qs.get(str(k), ()):
          got = hsmcheck.run_query(cq, rq, q)
          want = self.expected(model, q)
          depth = model.depth(model.cur)
          encl = q[1] == TOP or q[1] in model.path(model.cur)
          if len(q) > 2 and q[1] != TOP:
            encl = False
            classes.append("same_named_function_of_another_chart")
          classes.append("%s_%s" % (q[0], "enclosing" if encl else "other"))
          if depth >= 3 and not encl:
            nontrivial = True
          if cq.state_name != cp.state_name or getattr(cq.state_fn, "__name__", None) != getattr(cp.state_fn, "__name__", None):
            self.violation(stats,
              "after %s in %s: %s(%s) left state_name = %r / state_fn = %r on the queried chart; the unqueried "
              "twin says %r / %r" % (where, name_of(model.cur), q[0], name_of(q[1]), cq.state_name,
                                     getattr(cq.state_fn, "__name__", None), cp.state_name,
                                     getattr(cp.state_fn, "__name__", None)), "C22:query-changes-state-name")
          # a query is an observation: the chart's own switches are what they were
          for attr in ("instrumented", "live_spy", "live_trace"):
            if getattr(cq, attr, None) != getattr(cp, attr, None):
              raise PropertyViolation(
                "after %s in %s: %s(%s) left %s = %r on the queried chart; the unqueried twin has %r" % (
                  where, name_of(model.cur), q[0], name_of(q[1]), attr, getattr(cq, attr, None),
                  getattr(cp, attr, None)), "C22:query-changes-chart")
          ok = got[0] == want[0] and (got[0] == "raised" or got[1] == want[1])
          if not ok:
            raise PropertyViolation(
              "after %s in %s: %s(%s) gave %s, expected %s" % (
                where, name_of(model.cur), q[0], name_of(q[1]),
                got, want if want[0] == "ok" else "an exception"), "C22:answer")
    except HarnessBound as e:
      raise PropertyViolation("did not terminate: %s" % e, "C22:hang")
    stats.case(case, nontrivial, classes)


PROP = C22
