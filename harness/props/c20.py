"""C20 - the trace has one record per transition and none for other steps."""
from ..run import Prop
from ..common import PropertyViolation, HarnessBound
from .. import spytrace
from .c19 import first_diff


class C20(Prop):
  id = "C20"
  quick_examples = 1500
  thorough_examples = 6000
  rule = ("Hypothesis-generated histories on a decorated chart (a quarter of them with their states written as methods of the chart's own class, so that every mention of a state is a new bound method) hosted on an instrumented "
          "HsmWithQueues (handlers post/defer/recall/scribble; operations post, defer, recall, "
          "next_rtc, complete_circuit; one history in eight has 255-350 queued events so that more "
          "than 500 transitions can occur); one case in four hosts the chart on a started ActiveObject under the "
          "deterministic scheduler and reads the object's own trace() (sometimes after a subscribe made before the start); "
          "a queued chart may have had an event deferred and recalled before its start, and may be started a second time at the end. Oracle from the reference model: trace() parsed line by "
          "line equals one record (start_at, top, resting state) for start_at followed by exactly "
          "one record (signal, previous state, new state) per step in which the model takes a "
          "transition, none for internally handled or ignored events, in order, last 500. "
          "Non-trivial: the history mixes >=1 transition with >=1 internally handled or ignored "
          "event; distinct = distinct case digests.")
  assumptions = [
    "trace lines are parsed with the documented layout '[time] [name] e->SIG() from->to'",
    "histories whose handler actions run in another order than the model predicts are excluded",
  ]

  def strategy(self, tier):
    from hypothesis import strategies as st
    return st.tuples(spytrace.history(tier), st.sampled_from(["queued", "queued", "queued", "ao"]),
                     st.sampled_from([None, None, "recall", "subscribe", "publish"]), st.integers(0, 3)).map(
      lambda t: dict(t[0], host=t[1], pre=t[2], restart=(t[3] == 0)))

  def check(self, case, stats):
    if case.get("host") == "ao":
      return self.check_ao(case, stats)
    return self.check_run(case, stats, None)

  def check_ao(self, case, stats):
    """The same oracle for the trace() of a started ActiveObject (deterministic scheduler)."""
    from .. import detsched
    if case.get("budget", 30) > 30:
      case = dict(case, budget=30, ops=[o for o in case["ops"] if o[0] != "bulk_post"])
    ao = detsched.install()
    detsched.reset(ao)
    files = detsched.miros_files()
    s = detsched.Scheduler(schedule=[], step_limit=3000000, trace_files=[files["activeobject"]])
    box = {}

    def body(sch):
      try:
        self.check_run(case, stats, "ao")
      except PropertyViolation as v:
        box["v"] = v
    try:
      detsched.guarded_run(s, body)
    except (detsched.Deadlock, detsched.StepLimit) as e:
      raise PropertyViolation("no quiescence on an active object: %s" % e, "C20:liveness")
    if "v" in box:
      raise box["v"]
    if s.thread_errors:
      name, e, tb = s.thread_errors[0]
      raise PropertyViolation("thread %s died: %s: %s" % (name, type(e).__name__, e), "C20:thread-error")

  def check_run(self, case, stats, host):
    run = spytrace.Run(case, host=host)
    kinds = set()
    classes = []
    try:
      try:
        sig0 = case["spec"]["sigs"][0]
        if case.get("pre") == "recall" and host is None:
          # something was deferred and recalled before the chart was started
          run.model.external(["defer", sig0])
          run.model.d.recall()
          run.real.apply(["defer", sig0])
          run.real.apply(["recall"])
          classes.append("recall_before_start")
        elif case.get("pre") == "subscribe" and host == "ao":
          # the usual order for an active object: subscribe first, start afterwards
          from miros.event import Event, signals
          signals.append("VSUB")
          run.real.chart.subscribe(Event(signal=signals["VSUB"]))
          classes.append("subscribe_before_start")
        elif case.get("pre") == "publish" and host == "ao":
          # ... or publish before it is started (the request waits in the object's own queue)
          from miros.event import Event, signals
          signals.append("VSUB")
          run.real.chart.publish(Event(signal=signals["VSUB"]))
          classes.append("publish_before_start")
        run.start()
        self.compare(run, "start_at")
        for idx, op in enumerate(case["ops"]):
          n0 = len(run.model.actlog)
          before = run.model.m.cur
          r = run.apply(op)
          if r is None:
            continue
          if r == "desync" or run.model.d.overflowed:
            stats.exclude("desync_actions_or_capacity")
            break
          self.compare(run, "op %d %s" % (idx, op))
        if len(run.exp_trace) == spytrace.RING:
          classes.append("ring_wrapped")
        clears = any(a[0] == "clear_trace" for lst in (case["spec"].get("acts") or {}).values() for a in lst)
        if case.get("restart") and host is None and not run.model.d.overflowed and not clears:
          # the same chart object is started a second time: one more start record
          from ..refmodel import Model
          m2 = Model(case["spec"])
          m2.start(case["start"])
          run.real.chart.start_at(run.real.rt.fns[case["start"]])
          run.exp_trace.append(("start_at", "top", spytrace.name_of(m2.cur)))
          classes.append("started_twice")
          self.compare(run, "second start_at")
      except spytrace.Desync:
        # the handlers' actions ran in another order / number than the model predicts (a chart
        # whose exit action queries the chart mid-transition, C01/C02 domain): not comparable
        stats.exclude("desync_actions_or_capacity")
      except HarnessBound as e:
        raise PropertyViolation("did not terminate: %s" % e, "C20:hang")
      except PropertyViolation:
        raise
      except Exception as e:
        raise PropertyViolation("raised %s: %s" % (type(e).__name__, e), "C20:raised")
    finally:
      run.close()
    # classify by the model's view of the executed steps
    from ..queued import QModel
    m = QModel(case["spec"], case.get("budget", 30))
    m.start(case["start"])
    for op in case["ops"]:
      k = op[0]
      if k == "next_rtc":
        r = m.next_rtc()
        if r:
          kinds.add(r[1]["kind"])
      elif k == "complete_circuit":
        while m.d.q and not m.d.overflowed:
          kinds.add(m.next_rtc()[1]["kind"])
      elif k == "recall":
        m.d.recall()
      else:
        m.external(op)
      if m.d.overflowed:
        break
    classes.extend("kind_" + k for k in sorted(kinds))
    classes.append("host_" + (host or "queued"))
    stats.case(case, "trans" in kinds and len(kinds) >= 2, classes)

  def compare(self, run, where):
    got = spytrace.parse_trace(run.real.chart.trace())
    d = first_diff(got, list(run.exp_trace))
    if d:
      raise PropertyViolation("%s: trace record %d is %r, model gives %r (%d vs %d records)" % (
        (where,) + d + (len(got), len(run.exp_trace))), "C20:trace")


PROP = C20
