"""C13 - fabric start/stop/restart keeps exactly one delivery thread per kind."""
from hypothesis import strategies as st

from ..run import Prop
from ..common import PropertyViolation
from .. import detsched, aocheck
from .c04 import schedule_st
from .c08 import StampedRecorder

SIGS = ["VA", "VB"]


@st.composite
def lifecycle(draw):
  n = draw(st.integers(1, 12))
  ops = []
  for _ in range(n):
    k = draw(st.sampled_from(["start", "start", "stop", "stop_quietly", "subscribe", "publish", "publish",
                              "settle", "start_object", "post", "clear", "object_publish", "race", "poison",
                              "object_print", "wake_stale", "race_starts", "race_clear"]))
    if k in ("subscribe", "publish"):
      ops.append([k, draw(st.sampled_from(SIGS))])
    else:
      ops.append([k])
  # end in a known state: restart, subscribe, publish, settle
  # a fixed tail every history goes through: an object that outlives a quiet stop publishes,
  # the fabric must stay stopped; then restart
  ops += [["start"], ["clear"], ["subscribe", "VB"], ["publish", "VB"], ["settle"],     # clear() on a running fabric
          ["start_object"], ["settle"], ["stop_quietly"], ["object_publish"], ["object_print"], ["settle"], ["wake_stale"],
          ["stop"], ["start"], ["settle"]]
  return {"ops": ops, "schedule": [list(x) for x in draw(schedule_st)],
          "live_objects": draw(st.booleans())}       # the objects hand live spy/trace output to the shared writer


class DeliberatePoison(Exception):
  """Raised on purpose by a generated subscriber: it takes one delivery thread down."""


class PoisonQueue:
  def append(self, e):
    raise DeliberatePoison("this subscriber's append raises")

  def appendleft(self, e):
    raise DeliberatePoison("this subscriber's appendleft raises")


class C13(Prop):
  id = "C13"
  quick_examples = 300
  thorough_examples = 4000
  rule = ("Generated lifecycles of the real ActiveFabric under the deterministic scheduler: up to 12 "
          "operations from start, stop, clear, subscribe(recorder, signal), publish(signal), settle, "
          "an object's print() (two lines handed to the shared output writer), start an ActiveObject (in half of the cases with live spy/trace output on), post to it, and 'race': stop() and start() called at the same time from two "
          "threads (afterwards: never two delivery threads of one kind alive, and a following stop() ends "
          "everything - which call wins is not asserted), 'race_starts': start() called at the same time from two threads "
          "(still one delivery thread of each kind), and 'poison': a subscriber whose append raises takes the lifo "
          "delivery thread down (is_alive() must then say False and the next start() brings the thread back); then stop, start, and a final round that subscribes a "
          "fresh recorder, publishes and settles. Delivery threads are identified black-box as the "
          "threads spawned during start() calls. Oracle: at every settle at most two of them are "
          "alive; is_alive() is true exactly when two are alive after a start() and false after a "
          "stop(); after stop() none is alive and every started active object's thread has ended by "
          "the next settle after it was woken; each publication made while the fabric runs (and "
          "not separated from its subscription by a clear()) is delivered exactly once per kind, in publication order - "
          "never twice, which a second pair of delivery threads would cause... and after the final "
          "stop(); start() the fresh subscription receives the fresh publication exactly once. "
          "'race_clear': stop() and clear() called at the same time from two threads (both return, no delivery thread survives). Non-trivial: the history calls start() while the fabric is already running, or races stop() with start(); distinct = "
          "distinct case digests.")
  assumptions = ["delivery between a clear() on a running fabric and the next stop/start is not asserted",
                 "publications made while the fabric is stopped may be delivered after a restart or not (0..1)"]

  def strategy(self, tier):
    return lifecycle()

  def extra(self, tier, seed, shard, nshards, stats):
    """A regular family for stop() arriving while a delivery thread is in the middle of a delivery
    and more publications are waiting: the body publishes seven events; periodic schedules let a
    delivery thread run q lines for every three stretches of the body, q = 1..40, with body
    stretches of 5..60 lines; then stop, start, settle (everything still arrives, in order)."""
    idx = 0
    ops = [["start"], ["subscribe", "VA"]] + [["publish", "VA"]] * 7 + [["stop"], ["start"], ["settle"],
                                                                        ["publish", "VA"], ["settle"]]
    for b in (5, 9, 14, 22, 35, 60):
      for q in range(1, 41, 2):
        for who in (1, 2):
          idx += 1
          if idx % nshards != shard:
            continue
          case = {"ops": ops, "schedule": [[0 if i % 4 else who, b if i % 4 else q] for i in range(160)]}
          try:
            self.check(case, stats)
          except PropertyViolation as v:
            yield case, v
            return
    stats.classes["periodic_schedule_family"] = idx

  def check(self, case, stats):
    ao = detsched.install()
    detsched.reset(ao)
    from miros.event import Event, signals
    files = detsched.miros_files()
    for s_ in SIGS + ["VC"]:
      signals.append(s_)
    rec = aocheck.Rec()
    flags = {"start_while_running": False, "race": False, "poison": False}

    def body(s):
      af = ao.ActiveFabric()
      fabric_threads = []          # VT records spawned during start() calls
      recorders = {}               # sig -> StampedRecorder (subscribed fifo and lifo)
      subscribed_epoch = {}        # sig -> epoch of subscription
      running = False
      epoch = [0]                  # bumped by clear(): expectations across a clear are dropped
      pending = []                 # (id, sig, running_at_publish, epoch, subscribed)
      objects = []
      stale = []                   # objects started under a fabric run that has since been stopped
      nid = [0]
      degraded = [False]
      A = aocheck.make_ao_class(rec)

      def alive_fabric():
        return [t for t in fabric_threads if not t.finished]

      def do_start():
        before = len(s.threads)
        af.start()
        fabric_threads.extend(s.threads[before:])

      def settle(where):
        s.quiesce()
        live = alive_fabric()
        if len(live) > 2:
          raise PropertyViolation("%s: %d delivery threads are alive (%s)" % (
            where, len(live), [t.name for t in live]), "C13:too-many-threads")
        if degraded[0]:
          # one delivery thread was taken down by a subscriber that raises: is_alive() says so
          if af.is_alive():
            raise PropertyViolation("%s: is_alive() says True, %d delivery thread(s) are alive (%s)" % (
              where, len(live), [t.name for t in live]), "C13:is_alive")
          del pending[:]
          return
        if running and len(live) != 2:
          raise PropertyViolation("%s: the fabric was started but %d delivery threads are alive" % (
            where, len(live)), "C13:not-running")
        if running != af.is_alive():
          raise PropertyViolation("%s: is_alive() says %s, %d delivery threads are alive, fabric %s" % (
            where, af.is_alive(), len(live), "started" if running else "stopped"), "C13:is_alive")
        # every publication here has the same priority and is made by this one thread, one after
        # the other: whatever was stopped and started in between, a subscriber sees them in order
        for sig_, r_ in recorders.items():
          for kind in ("fifo", "lifo"):
            seen_ids = [i for i, _ in r_[kind].items]
            if seen_ids != sorted(seen_ids):
              raise PropertyViolation("%s: the %s subscriber of %s received publications in the order %s" % (
                where, kind, sig_, seen_ids), "C13:order")
        for (pid, sig, was_running, ep, sub) in pending:
          r = recorders.get(sig)
          if r is None:
            continue
          for kind in ("fifo", "lifo"):
            got = [i for i, _ in r[kind].items].count(pid)
            if got > 1:
              raise PropertyViolation("%s: publication %d (%s) was delivered %d times to one %s subscriber" % (
                where, pid, sig, got, kind), "C13:duplicate-delivery")
            if sub and was_running and running and ep == epoch[0] and got != 1:
              raise PropertyViolation("%s: publication %d (%s) made while the fabric ran was delivered %d "
                                      "time(s) to its %s subscriber" % (where, pid, sig, got, kind),
                                      "C13:lost-delivery")
        del pending[:]

      for idx, op in enumerate(case["ops"] + [["final"]]):
        where = "op %d %s" % (idx, op)
        k = op[0]
        if k == "race_starts":
          # start() called at the same time from two threads (two objects started from two threads):
          # still one delivery thread of each kind
          flags["race"] = True

          def one_start():
            before = set(id(t) for t in s.threads)
            try:
              af.start()
            except AssertionError:
              flags["start_assert"] = True
          before_all = len(s.threads)
          helpers = [ao.Thread(target=one_start, name="vfstarter%d" % j) for j in (1, 2)]
          for h in helpers:
            h.start()
          for h in helpers:
            h.join()
          fabric_threads.extend(t for t in s.threads[before_all:] if not t.name.startswith("vfstarter"))
          running = True
          degraded[0] = False
          s.quiesce()
          for kind in ("fifo", "lifo"):
            live = [t for t in alive_fabric() if kind in t.name]
            if len(live) > 1:
              raise PropertyViolation("%s: after two start() calls made at the same time %d %s delivery threads are alive" % (
                where, len(live), kind), "C13:too-many-threads")
        elif k == "poison":
          # a subscriber whose append raises takes the lifo delivery thread down (that thread's
          # exception is expected); is_alive() must say so and the next start() must bring it back
          if running and not degraded[0]:
            signals.append("VP")
            af.subscribe(PoisonQueue(), Event(signal=signals["VP"]), queue_type="lifo")
            af.publish(Event(signal=signals["VP"], payload=-7))
            s.quiesce()
            degraded[0] = True
            epoch[0] += 1
            flags["poison"] = True
            settle(where)
        elif k == "start":
          if running:
            flags["start_while_running"] = True
          do_start()
          running = True
          degraded[0] = False
          if len(alive_fabric()) > 2:
            raise PropertyViolation("%s: start() left %d delivery threads alive" % (
              where, len(alive_fabric())), "C13:too-many-threads")
        elif k == "object_publish":
          # an active object publishes (its thread may be alive although the fabric is stopped)
          for c in objects + stale:
            nid[0] += 1
            pending.append((nid[0], "VA", running, epoch[0], "VA" in recorders))
            c.publish(Event(signal=signals["VA"], payload=nid[0]))
        elif k == "wake_stale":
          # the objects that outlived a quiet stop are woken while the fabric is still stopped: each
          # halts at this wake-up
          if not running and stale:
            for c in stale:
              c.post_fifo(Event(signal=signals["VC"], payload=-2))
            s.quiesce()
            for c in stale:
              if c.thread.is_alive():
                raise PropertyViolation("%s: the fabric is stopped, active object %s was woken and is still running" % (
                  where, c.name), "C13:object-survives-stop")
            del stale[:]
        elif k == "object_print":
          # lines handed to the shared output writer through an object's print(), twice
          for c in (objects + stale)[:1]:
            c.print("vf line one")
            c.print("vf line two")
        elif k == "stop_quietly":
          # stop without waking the active objects: their threads stay alive until their next event
          af.stop()
          running = False
          degraded[0] = False
          if alive_fabric() or af.is_alive():
            raise PropertyViolation("%s: stop() returned but delivery threads are alive" % where, "C13:stop")
          stale.extend(objects)
          del objects[:]
        elif k == "race_clear":
          # stop() and clear() called at the same time from two threads: stop() still ends both
          # delivery threads and returns (clear() empties the very queues stop() wakes them through)
          flags["race"] = True
          if not running:
            do_start()
            running = True
          helpers = [ao.Thread(target=af.stop, name="vfstopper"), ao.Thread(target=af.clear, name="vfclearer")]
          for h in helpers:
            h.start()
          s.quiesce()
          late = [h.name for h in helpers if h.is_alive()]
          if late or alive_fabric():
            raise PropertyViolation("%s: stop() and clear() were called at the same time; not returned: %s, delivery "
                                    "threads still alive: %s" % (where, late, [t.name for t in alive_fabric()]), "C13:stop")
          epoch[0] += 1
          recorders.clear()
          k = "stop"
        elif k == "race":
          # stop() and start() called at the same time from two threads.  Which of them wins is
          # not asserted; what must hold whatever the interleaving: never two delivery threads
          # of one kind alive, and a stop() made afterwards ends everything.
          flags["race"] = True
          if not running:
            do_start()
            running = True

          def racing_start():
            before = len(s.threads)
            try:
              af.start()
            except AssertionError:
              # start()'s own assertion ("the thread I made is alive") can find a thread that the
              # concurrent stop() has already told to end; the race itself, not asserted
              flags["start_assert"] = True
            fabric_threads.extend(t for t in s.threads[before:] if t.name not in ("vfstopper", "vfstarter"))
          def racing_stop():
            try:
              af.stop()
            except AssertionError:
              # stop()'s own closing assertion ("the threads I joined are dead") can find the
              # thread a concurrent start() has just made; that is the race itself, not asserted
              flags["stop_assert"] = True
          helpers = [ao.Thread(target=racing_stop, name="vfstopper"), ao.Thread(target=racing_start, name="vfstarter")]
          for h in helpers:
            h.start()
          s.quiesce()
          for kind in ("fifo", "lifo"):
            live = [t for t in alive_fabric() if kind in t.name]
            if len(live) > 1:
              raise PropertyViolation("%s: after stop() and start() raced, %d %s delivery threads are alive" % (
                where, len(live), kind), "C13:too-many-threads")
          epoch[0] += 1                  # what was published before the race is not asserted
          k = "stop"
        if k == "stop":
          af.stop()
          running = False
          degraded[0] = False
          objects.extend(stale)
          del stale[:]
          if alive_fabric():
            raise PropertyViolation("%s: stop() returned but %s still alive" % (
              where, [t.name for t in alive_fabric()]), "C13:stop")
          if af.is_alive():
            raise PropertyViolation("%s: is_alive() is true after stop()" % where, "C13:is_alive")
          if op[0] == "race":
            s.quiesce()
            late = [h.name for h in helpers if h.is_alive()]
            if late or alive_fabric():
              raise PropertyViolation("%s: after the race and a final stop(), still alive: %s" % (
                where, late + [t.name for t in alive_fabric()]), "C13:stop")
          # every active object halts at its next wake-up
          for c in objects:
            c.post_fifo(Event(signal=signals["VC"], payload=-1))
          s.quiesce()
          for c in objects:
            if c.thread.is_alive():
              raise PropertyViolation("%s: active object %s is still running after the fabric was stopped "
                                      "and it was woken" % (where, c.name), "C13:object-survives-stop")
          del objects[:]
        elif k == "clear":
          af.clear()
          epoch[0] += 1
          recorders.clear()
        elif k == "subscribe":
          sig = op[1]
          if sig not in recorders:
            recorders[sig] = {"fifo": StampedRecorder(), "lifo": StampedRecorder()}
          af.subscribe(recorders[sig]["fifo"], Event(signal=signals[sig]), queue_type="fifo")
          af.subscribe(recorders[sig]["lifo"], Event(signal=signals[sig]), queue_type="lifo")
        elif k == "publish":
          nid[0] += 1
          sig = op[1]
          pending.append((nid[0], sig, running, epoch[0], sig in recorders))
          af.publish(Event(signal=signals[sig], payload=nid[0]))
        elif k == "settle":
          settle(where)
        elif k == "start_object":
          if running and len(objects) < 2:
            before = len(s.threads)
            c = A(name="ao%d" % (len(s.threads)))
            if case.get("live_objects"):
              sink = []
              c.live_spy = c.live_trace = True
              c.register_live_spy_callback(sink.append)
              c.register_live_trace_callback(sink.append)
            c.start_at(aocheck.flat_chart(rec, sigs=SIGS + ["VC"]))
            objects.append(c)
            # an object that finds the fabric not alive starts it: a delivery thread that was taken
            # down comes back here
            fabric_threads.extend(t for t in s.threads[before:] if "fabric" in t.name)
            degraded[0] = False
        elif k == "post":
          for c in objects:
            c.post_fifo(Event(signal=signals["VA"], payload=5))
        elif k == "final":
          fresh = {"fifo": StampedRecorder(), "lifo": StampedRecorder()}
          af.subscribe(fresh["fifo"], Event(signal=signals["VC"]), queue_type="fifo")
          af.subscribe(fresh["lifo"], Event(signal=signals["VC"]), queue_type="lifo")
          af.publish(Event(signal=signals["VC"], payload=4242))
          settle(where)
          for kind in ("fifo", "lifo"):
            got = [i for i, _ in fresh[kind].items]
            if got != [4242]:
              raise PropertyViolation("after stop(); start() a fresh %s subscription received %s for one "
                                      "publication" % (kind, got), "C13:restart")
          af.stop()

    s = detsched.Scheduler(schedule=case["schedule"], step_limit=600000,
                           trace_files=[files["activeobject"]])
    import io
    import contextlib
    try:
      with contextlib.redirect_stdout(io.StringIO()):      # (object.print() writes to stdout)
        detsched.guarded_run(s, body)
    except (detsched.Deadlock, detsched.StepLimit) as e:
      raise PropertyViolation("no quiescence: %s" % e, "C13:liveness")
    errors = [x for x in s.thread_errors if not isinstance(x[1], DeliberatePoison)]
    if errors:
      name, e, tb = errors[0]
      raise PropertyViolation("thread %s died: %s: %s" % (name, type(e).__name__, e), "C13:thread-error")
    stats.case(case, flags["start_while_running"] or flags["race"],
               sorted(set("op_" + o[0] for o in case["ops"])) + (["race_stop_saw_new_thread"] if flags.get("stop_assert") else []) +
               (["one_thread_taken_down"] if flags.get("poison") else []))


PROP = C13
