"""C11 - cancelling a timed source stops exactly that source, for good."""
from hypothesis import strategies as st

from ..run import Prop
from ..common import PropertyViolation
from .. import detsched
from .c04 import schedule_st
from .c10 import TimedWorld, expected_instants

SIGNAMES = ["VA", "VB", "VC"]
NESTED = ["VT", "VT_X", "X_VT_X"]       # names that contain one another


def signame(case, sig):
  return NESTED[SIGNAMES.index(sig)] if case.get("nested") else sig


@st.composite
def cancel_case(draw):
  n = draw(st.integers(1, 4))
  sources = []
  for _ in range(n):
    sources.append({"kind": draw(st.sampled_from(["fifo", "lifo"])),
                    "period": draw(st.sampled_from([0.5, 0.5, 1.0, 0.25, 0.75])),
                    "times": draw(st.sampled_from([0, 0, 1, 2, 3, 5])),
                    "deferred": draw(st.sampled_from([True, False])),
                    "sig": draw(st.sampled_from(SIGNAMES))})
  ncancel = draw(st.integers(1, 2))
  cancels = []
  for _ in range(ncancel):
    by = draw(st.sampled_from(["id", "id", "name"]))
    target = draw(st.integers(0, n - 1))
    # cancellation instants are multiples of 0.25 so that they often coincide with a firing
    cancels.append({"by": by, "target": target, "at": draw(st.integers(0, 12)) * 0.25,
                    "form": draw(st.sampled_from(["same", "rebuilt", "rebuilt", "roundtrip"]))})
  cancels.sort(key=lambda c: c["at"])
  late = None
  if draw(st.integers(0, 2)) == 0:
    # a further source armed right after the first cancellation returned (an object re-arming a
    # timer it has just cancelled); a later cancellation may aim at it
    late = {"kind": draw(st.sampled_from(["fifo", "lifo"])), "period": draw(st.sampled_from([0.5, 0.25, 1.0])),
            "times": draw(st.sampled_from([0, 0, 2, 5])), "deferred": draw(st.sampled_from([True, False])),
            "sig": draw(st.sampled_from(SIGNAMES + [sources[cancels[0]["target"]]["sig"]] * 3))}
    for c in cancels[1:]:
      if draw(st.integers(0, 2)) == 0:
        c["target"] = n
  # scheduling decisions scripted for the cancel instants themselves: short run lengths there
  timed = {}
  for c in cancels:
    timed[str(c["at"])] = [list(x) for x in draw(st.lists(st.tuples(st.integers(0, 4), st.integers(1, 40)),
                                                          max_size=5))]
  creator = None
  if draw(st.integers(0, 2)) == 0:
    # another thread arms a further source at the very instant of the first cancellation
    creator = {"kind": draw(st.sampled_from(["fifo", "lifo"])), "period": draw(st.sampled_from([0.5, 0.25, 1.0])),
               "times": draw(st.sampled_from([0, 0, 3])), "deferred": draw(st.sampled_from([True, False])),
               "sig": draw(st.sampled_from(SIGNAMES)), "count": draw(st.integers(1, 3))}
  return {"sources": sources, "cancels": cancels, "schedule": [list(x) for x in draw(schedule_st)],
          "timed_schedule": timed, "late": late, "nested": draw(st.integers(0, 2)) == 0, "creator": creator}


class C11(Prop):
  id = "C11"
  quick_examples = 600
  thorough_examples = 4000
  rule = ("Generated sets of 1-4 timed sources (fifo/lifo, periods from {0.25,0.5,0.75,1.0}, times "
          "in {0,1,2,3,5}, deferred or not, signals from three names so that sources share names - in a third of the "
          "cases names that contain one another (VT, VT_X, X_VT_X) - optionally one more source armed right after the "
          "first cancellation returned, which a later cancellation may aim at, and optionally 1-3 sources armed by ANOTHER "
          "thread at the very instant of the first cancellation) and "
          "1-2 cancellations issued by the body at generated virtual instants that are multiples of "
          "0.25 (so they frequently coincide with a firing, leaving the interleaving to the "
          "generated schedule): cancel_event(id) or cancel_events(e), where the id / event is the "
          "object miros returned, an equal string rebuilt character by character, an Event built "
          "from a rebuilt name, or an Event sent through Event.dumps/loads. Oracle: no posting by a "
          "cancelled source is invoked at a scheduler step later than the step at which the "
          "cancelling call returned; every source that was not cancelled still posts at exactly its "
          "expected instants up to the horizon. Non-trivial: an equal-but-not-identical argument, "
          "or a cancel issued at an instant at which the target source fires; distinct = distinct "
          "case digests.")
  assumptions = ["a posting is 'invoked' when the timer thread enters post_fifo/post_lifo (stamped by an override)"]

  def strategy(self, tier):
    return cancel_case()

  def extra(self, tier, seed, shard, nshards, stats):
    """A regular family for the race between a cancellation and a source that finishes at the
    same instant: an endless source, a one-shot and a two-shot source (period 0.5), the endless
    one cancelled at t = 0.5 or t = 1.0; at that instant the canceller runs k1 steps, then one of
    the finishing timer threads k2 steps, then the canceller again."""
    idx = 0
    srcs = [{"kind": "fifo", "period": 0.5, "times": 0, "deferred": True, "sig": "VA"},
            {"kind": "fifo", "period": 0.5, "times": 1, "deferred": True, "sig": "VB"},
            {"kind": "lifo", "period": 0.5, "times": 2, "deferred": True, "sig": "VC"}]
    for at, pick in ((0.5, 2), (1.0, 3), (0.5, 1), (1.0, 2)):
      for k1 in range(1, 36, 2):
        for k2 in range(4, 61, 8):
          idx += 1
          if idx % nshards != shard:
            continue
          case = {"sources": srcs, "cancels": [{"by": "id", "target": 0, "at": at, "form": "same"}],
                  "schedule": [], "timed_schedule": {str(at): [[0, k1], [pick, k2], [0, 3000]]}}
          try:
            self.check(case, stats)
          except PropertyViolation as v:
            yield case, v
            return
    stats.classes["scripted_schedule_family"] = idx

  def check(self, case, stats):
    if "window_search" in case:
      # a listed finding described by a small family of schedules rather than one fragile
      # schedule: at the cancel instant let the timer thread run K steps, then the canceller
      lo, hi = case["window_search"]
      for k in range(lo, hi + 1):
        c = dict((a, b) for a, b in case.items() if a != "window_search")
        c["timed_schedule"] = {str(case["cancels"][0]["at"]): [[1, k], [0, 2000]]}
        self.check_one(c, stats)
      return
    return self.check_one(case, stats)

  def check_one(self, case, stats):
    w = TimedWorld(case)
    Event, signals, rec = w.Event, w.signals, w.rec
    ids, info = [], {"cancel_ret": []}

    def body(s):
      chart, fn = w.make_chart(s)
      chart.start_at(fn)
      s.quiesce()
      t0 = s.now
      for k, src in enumerate(case["sources"]):
        e = Event(signal=signame(case, src["sig"]), payload=k)
        ids.append(getattr(chart, "post_" + src["kind"])(e, period=src["period"], times=src["times"],
                                                        deferred=src["deferred"]))
      info["t0"] = t0
      allsrc = list(case["sources"])
      created = []          # (index, arm time) of the sources the creator thread armed
      if case.get("creator") and case["cancels"]:
        cr_ = case["creator"]
        base_index = len(case["sources"]) + (1 if case.get("late") else 0)

        def creator_thread():
          w.ao.time.sleep(case["cancels"][0]["at"])
          for j in range(cr_.get("count", 1)):
            e2 = Event(signal=signame(case, cr_["sig"]), payload=base_index + j)
            created.append((base_index + j, s.now))
            cid = getattr(chart, "post_" + cr_["kind"])(e2, period=cr_["period"], times=cr_["times"],
                                                        deferred=cr_["deferred"])
            info.setdefault("created_ids", []).append(cid)
        cth = w.ao.Thread(target=creator_thread, name="vfcreator")
        cth.start()
      info["created"] = created
      for ci, c in enumerate(case["cancels"]):
        s.wake_at(t0 + c["at"])      # competes with the sources that fire at this instant
        if c["target"] >= len(allsrc):
          c = dict(c, target=0)      # (a shrunk case may have lost its late source)
        src = allsrc[c["target"]]
        if c["by"] == "id":
          arg = ids[c["target"]]
          if c["form"] != "same":
            arg = "".join(list(str(arg)))          # equal, not identical
          chart.cancel_event(arg)
          hit = [c["target"]]
        else:
          name = signame(case, src["sig"])
          if c["form"] == "same":
            ev = Event(signal=signals[name])
          elif c["form"] == "rebuilt":
            ev = Event(signal="".join(list(name)))
          else:
            ev = Event.loads(Event.dumps(Event(signal=signals[name], payload={"x": 1})))
          chart.cancel_events(ev)
          hit = [k for k, x in enumerate(allsrc) if x["sig"] == src["sig"]]
        info["cancel_ret"].append({"step": s.steps, "now": s.now, "hit": hit, "c": c})
        if ci == 0 and case.get("late"):
          lt = case["late"]
          info["late_t0"] = s.now
          allsrc.append(lt)
          e = Event(signal=signame(case, lt["sig"]), payload=len(allsrc) - 1)
          ids.append(getattr(chart, "post_" + lt["kind"])(e, period=lt["period"], times=lt["times"],
                                                       deferred=lt["deferred"]))
      horizon = t0 + 4.0
      info["horizon"] = horizon
      s.sleep_until(horizon)
      info["posts"] = [dict(p) for p in rec.posts]
      for i in ids + info.get("created_ids", []):
        chart.cancel_event(i)
      for name in SIGNAMES:
        chart.cancel_events(Event(signal=signame(case, name)))
      s.quiesce()

    try:
      s = w.run(body)
    except (detsched.Deadlock, detsched.StepLimit) as e:
      raise PropertyViolation("no quiescence: %s" % e, "C11:liveness")
    if s.thread_errors:
      name, e, tb = s.thread_errors[0]
      raise PropertyViolation("thread %s died: %s: %s" % (name, type(e).__name__, e), "C11:thread-error")
    srcs = list(case["sources"]) + ([case["late"]] if case.get("late") and "late_t0" in info else [])
    t0 = info["t0"]
    start_of = lambda k: info["late_t0"] if k >= len(case["sources"]) else t0
    cancelled = {}
    nontrivial = False
    for cr in info["cancel_ret"]:
      c = cr["c"]
      if c["form"] != "same":
        nontrivial = True
      for k in cr["hit"]:
        cancelled.setdefault(k, cr)
        fires = expected_instants(start_of(k), srcs[k]["period"], srcs[k]["times"], srcs[k]["deferred"], info["horizon"])
        if any(abs(f - (t0 + c["at"])) < 1e-12 for f in fires):
          nontrivial = True
    stats.case(case, nontrivial, ["cancel_by_%s_%s" % (c["by"], c["form"]) for c in case["cancels"]] +
               (["late_source"] if len(srcs) > len(case["sources"]) else []) +
               (["nested_names"] if case.get("nested") else []) +
               (["source_armed_by_another_thread_during_cancel"] if info.get("created") else []))
    for k, src in enumerate(srcs):
      mine = [p for p in info["posts"] if p["id"] == k and p["sig"] == signame(case, src["sig"])]
      if k in cancelled:
        cr = cancelled[k]
        late = [p for p in mine if p["inv"] > cr["step"]]
        if late:
          c = cr["c"]
          same_instant = len(late) == 1 and abs(late[0]["now"] - cr["now"]) < 1e-12
          if same_instant:
            # one stray post at the very instant of the cancel: the check-then-post window,
            # whatever form the argument had
            bucket = "C11:check-then-post-window"
          elif c["form"] != "same":
            bucket = "C11:equal-not-identical-argument"
          else:
            bucket = "C11:keeps-posting"
          if self.violation(stats, "source %d (%s every %s) was cancelled by cancel_%s(%s form) which returned at "
                            "step %d (t=%s) but posted again at %s" % (
                              k, src["sig"], src["period"], "event" if c["by"] == "id" else "events", c["form"],
                              cr["step"], cr["now"], [(p["inv"], p["now"]) for p in late]), bucket) is False:
            continue
      else:
        got = [p["now"] for p in mine]
        want = expected_instants(start_of(k), src["period"], src["times"], src["deferred"], info["horizon"])
        if got != want:
          raise PropertyViolation("source %d (%s) was not cancelled but posted at %s, expected %s; cancels: %s" % (
            k, src["sig"], got, want, case["cancels"]), "C11:other-source-disturbed")
    # the sources another thread armed while the first cancellation was under way: unless a
    # cancellation by name could have met them, they run on schedule from the moment they were armed
    cr_ = case.get("creator")
    named = set(srcs[c["target"]]["sig"] if c["target"] < len(srcs) else None
                for c in case["cancels"] if c["by"] == "name")
    if cr_ and cr_["sig"] not in named:
      for k, armed_at in info.get("created", []):
        got = [p["now"] for p in info["posts"] if p["id"] == k and p["sig"] == signame(case, cr_["sig"])]
        want = expected_instants(armed_at, cr_["period"], cr_["times"], cr_["deferred"], info["horizon"])
        if got != want:
          raise PropertyViolation("a source armed by another thread at t=%s, while a cancellation was under way, posted "
                                  "at %s, expected %s" % (armed_at, got, want), "C11:other-source-disturbed")


PROP = C11
