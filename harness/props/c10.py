"""C10 - timed posts fire the requested number of times at the requested period."""
from hypothesis import strategies as st

from ..run import Prop
from ..common import PropertyViolation
from .. import detsched, aocheck
from .c04 import schedule_st

PERIODS = [0.5, 0.5, 1.0, 0.25, 0.1, 3.0, 1e-3, 0.7, 1e-6, 2.5]


@st.composite
def timed_case(draw, max_sources=3):
  n = draw(st.integers(1, max_sources))
  sources = []
  for _ in range(n):
    sources.append({"kind": draw(st.sampled_from(["fifo", "lifo"])),
                    "period": draw(st.one_of(st.sampled_from(PERIODS),
                                             st.floats(min_value=1e-4, max_value=5.0, allow_nan=False))),
                    "times": draw(st.sampled_from([0, 1, 1, 2, 3, 4, 6])),
                    "zero": draw(st.integers(0, 9)) == 0,
                    "omit_times": draw(st.booleans()),     # an endless source asked for by leaving times out
                    "deferred": draw(st.sampled_from([True, True, False, None]))})
  if draw(st.integers(0, 9)) == 0:
    # a long count (beyond the interpreter's shared small integers), at a short period
    k = draw(st.integers(0, n - 1))
    sources[k]["times"] = draw(st.sampled_from([257, 300]))
    sources[k]["period"] = 1e-3
    sources[k]["zero"] = False
  for src in sources:
    # a zero period is a period too: n immediate postings (never generated as an endless source)
    if src.pop("zero") and src["times"] >= 1:
      src["period"] = draw(st.sampled_from([0, 0.0]))
  stall = None
  if draw(st.integers(0, 3)) == 0:
    # one posting of one source takes 1.5-4 periods (the posting thread falls behind its schedule)
    k = draw(st.integers(0, n - 1))
    if sources[k]["period"] > 0 and sources[k]["times"] != 1:
      stall = {"source": k, "nth": draw(st.integers(0, 2)), "factor": draw(st.sampled_from([1.5, 2.5, 4.0]))}
  return {"sources": sources, "parked": draw(st.booleans()), "stall": stall,
          # the timed posts are made before the chart is started; it is started 0-2 periods later
          "start_late": draw(st.sampled_from([None, None, None, 0.0, 0.6, 1.3])),
          "plain": draw(st.lists(st.sampled_from(["fifo", "lifo"]), max_size=2)),
          "schedule": [list(x) for x in draw(schedule_st)]}


def expected_instants(t0, period, times, deferred, horizon):
  """Posting instants by the same repeated addition the clock performs."""
  out = []
  t = t0
  if deferred is not False:
    t = t + period
  k = 0
  while t <= horizon and (times == 0 or k < times):
    out.append(t)
    k += 1
    t = t + period
  return out


class TimedWorld:
  """Shared set-up for the timer properties (C10, C11, C12, C31)."""

  def __init__(self, case, ao_kwargs=None):
    self.ao = detsched.install()
    detsched.reset(self.ao)
    from miros.event import Event, signals
    self.Event, self.signals = Event, signals
    self.files = detsched.miros_files()
    for s_ in ("VA", "VB", "VC", "VD", "VE", "VGATE", "VSTOP", "VSLOW", "VCRASH"):
      signals.append(s_)
    self.rec = aocheck.Rec()
    self.rec.gate["open"] = False
    self.case = case

  def make_chart(self, s, name="ao1", klass=None, on_extra=None):
    rec = self.rec
    A = klass or aocheck.make_ao_class(rec)
    chart = A(name=name)

    def on_dispatch(c, e):
      if e.signal_name == "VGATE":
        s.block(lambda: rec.gate["open"], None, what="gate")
      elif on_extra is not None:
        on_extra(c, e)
    fn = aocheck.flat_chart(rec, on_dispatch=on_dispatch, sigs=["VA", "VB", "VC", "VD", "VE", "VGATE", "VSTOP", "VSLOW", "VCRASH"])
    return chart, fn

  def run(self, body, step_limit=600000, opcodes=False):
    s = detsched.Scheduler(schedule=self.case["schedule"], step_limit=step_limit, opcodes=opcodes,
                           trace_files=[self.files["activeobject"]], timed=self.case.get("timed_schedule"))
    self.sched = s
    detsched.guarded_run(s, body)
    return s


class C10(Prop):
  id = "C10"
  quick_examples = 300
  thorough_examples = 4000
  rule = ("Generated timed sources under the deterministic scheduler with a virtual clock (time "
          "advances only when every thread is blocked): 1-3 concurrent post_fifo/post_lifo calls "
          "with period p (from a set with equal, tiny (1e-6) and long periods, any float in "
          "[1e-4, 5], or 0 for sources with a repeat count), times n in {0,1,2,3,4,6} (one case in ten a count of 257 or 300 at a period of 1 ms) and deferred True/False/default, optionally while "
          "the object's thread is parked behind a gate with plain events pending, optionally made "
          "BEFORE start_at (the chart is started 0-1.3 s later), under generated "
          "schedules; in a quarter of the cases one posting of one source takes 1.5-4 periods of virtual time (the posting thread falls behind; then the oracle is: exact count, first posting not early, never two postings of a source less than a period apart). Each posting is stamped with virtual time by an overriding post method. "
          "Oracle: per source the posting instants equal exactly t0+p, t0+2p, ... (deferred) or "
          "t0, t0+p, ... (not deferred), computed by the same repeated float addition; exactly n "
          "postings by the horizon (max n +3 periods later) for n >= 1, the matching prefix for "
          "n = 0; with the consumer parked, the dispatch order after the gate is explained by "
          "some order of the postings that respects their [invoke, return] step intervals in a "
          "model deque (fifo back, lifo front). Non-trivial: a source with n >= 2 or >= 2 sources; distinct = "
          "distinct case digests.")
  assumptions = ["time.sleep / time.time inside miros.activeobject are the virtual clock's",
                 "two sources firing at the same virtual instant may post in either order"]

  def strategy(self, tier):
    return timed_case()

  def check(self, case, stats):
    w = TimedWorld(case)
    Event, signals, rec = w.Event, w.signals, w.rec
    ids = []
    info = {}
    stall = case.get("stall")
    if stall and case.get("start_late") is not None:
      stall = None
    if stall:
      # (an endless source with a tiny period next to a long stall would fire without end)
      endless_ = [x["period"] for x in case["sources"] if x["times"] == 0]
      if endless_ and 2 * stall["factor"] * case["sources"][stall["source"]]["period"] > 100 * min(endless_):
        stall = None

    def body(s):
      chart, fn = w.make_chart(s)
      late = case.get("start_late")
      if late is None:
        chart.start_at(fn)
        s.quiesce()
      if case["parked"] and late is None:
        chart.post_fifo(Event(signal=signals["VGATE"], payload=0))
        s.quiesce()
      for j, kind in enumerate(case["plain"]):
        getattr(chart, "post_" + kind)(Event(signal=signals["VA"], payload=900 + j))
      t0 = s.now
      horizon = t0
      if stall:
        rec.slow_post = {("VB", stall["source"], stall["nth"]): stall["factor"] * case["sources"][stall["source"]]["period"]}
      for k, src in enumerate(case["sources"]):
        e = Event(signal=signals["VB"], payload=k)
        kw = {"period": src["period"], "times": src["times"]}
        if src["times"] == 0 and src.get("omit_times"):
          del kw["times"]        # the documented heart-beat form: post_fifo(e, period=0.7)
        if src["deferred"] is not None:
          kw["deferred"] = src["deferred"]
        ids.append(getattr(chart, "post_" + src["kind"])(e, **kw))
        if src["times"]:
          horizon = max(horizon, t0 + (src["times"] + 3) * src["period"])
      endless = [x["period"] for x in case["sources"] if x["times"] == 0]
      if endless:
        # an endless source fires until the horizon: keep the number of firings small
        horizon = t0 + 8 * min(endless)
      if stall:
        horizon = horizon + 2 * stall["factor"] * case["sources"][stall["source"]]["period"]
      info["t0"], info["horizon"] = t0, horizon
      if late is not None:
        # postings made meanwhile wait in the queue of the not yet started chart
        s.sleep_until(min(horizon, t0 + late))
        chart.start_at(fn)
      s.sleep_until(horizon)
      info["mark"] = len(rec.posts)
      info["posts_at_horizon"] = [dict(p) for p in rec.posts]
      # stop the endless sources so that the run can finish, then release the gate
      for k, src in enumerate(case["sources"]):
        chart.cancel_event(ids[k])
      rec.gate["open"] = True
      s.quiesce()

    try:
      s = w.run(body)
    except (detsched.Deadlock, detsched.StepLimit) as e:
      raise PropertyViolation("no quiescence: %s" % e, "C10:liveness")
    if s.thread_errors:
      name, e, tb = s.thread_errors[0]
      raise PropertyViolation("thread %s died: %s: %s" % (name, type(e).__name__, e), "C10:thread-error")
    srcs = case["sources"]
    stats.case(case, len(srcs) >= 2 or any(x["times"] >= 2 or x["times"] == 0 for x in srcs),
               ["sources_%d" % len(srcs), "parked" if case["parked"] else "running"] +
               ["times_%d" % x["times"] for x in srcs] +
               ["deferred_%s" % x["deferred"] for x in srcs] + (["slow_posting"] if stall else []))
    posts = info["posts_at_horizon"]
    for k, src in enumerate(srcs):
      mine = [p for p in posts if p["id"] == k and p["sig"] == "VB"]
      got = [p["now"] for p in mine]
      want = expected_instants(info["t0"], src["period"], src["times"], src["deferred"], info["horizon"])
      if stall:
        # one posting took longer than a period: the instants move, but the source still posts
        # exactly n times, not before its first due instant, and never twice within one period
        per = src["period"]
        ext = 2 * stall["factor"] * srcs[stall["source"]]["period"]
        due_all = len(expected_instants(info["t0"], per, src["times"], src["deferred"], info["horizon"] - ext)) == src["times"]
        if src["times"] and (len(got) > src["times"] or (due_all and len(got) != src["times"])):
          raise PropertyViolation(
            "source %d (%s, period %r, times %d, deferred %s) posted %d time(s) at %s with posting %d of source %d taking "
            "%r periods (t0=%r, horizon=%r)" % (k, src["kind"], per, src["times"], src["deferred"], len(got), got,
                                                stall["nth"], stall["source"], stall["factor"], info["t0"], info["horizon"]),
            "C10:count-after-stall")
        if got and want and got[0] < want[0]:
          raise PropertyViolation("source %d posted first at %r, due at %r" % (k, got[0], want[0]), "C10:instants")
        close = [(a, b) for a, b in zip(got, got[1:]) if b < a + per]
        if close:
          raise PropertyViolation(
            "source %d (%s, period %r, times %d, deferred %s) posted at %s: two postings less than a period apart %s, after "
            "posting %d of source %d took %r periods" % (k, src["kind"], per, src["times"], src["deferred"], got,
                                                         close[0], stall["nth"], stall["source"], stall["factor"]),
            "C10:burst-after-stall")
      elif got != want:
        raise PropertyViolation(
          "source %d (%s, period %r, times %d, deferred %s) posted at %s, expected %s (t0=%r, horizon=%r)" % (
            k, src["kind"], src["period"], src["times"], src["deferred"], got, want,
            info["t0"], info["horizon"]), "C10:instants")
      if any(p["kind"] != src["kind"] for p in mine):
        raise PropertyViolation("source %d posted with %s, requested %s" % (
          k, [p["kind"] for p in mine], src["kind"]), "C10:kind")
      if ids[k] is None:
        raise PropertyViolation("timed post %d returned no id" % k, "C10:id")
    if case["parked"] and case.get("start_late") is None:
      # placement: while the consumer is parked nothing is popped, so the dispatch order after the
      # gate must be explained by SOME order of the posts that respects their [invoke, return]
      # intervals (two timers firing at one instant may overlap), fifo = back, lifo = front
      posts = [dict(p, id=(p["sig"], p["id"], n)) for n, p in enumerate(rec.posts) if p["sig"] != "VGATE"]
      got = [(d["sig"], d["id"]) for d in rec.dispatch if d["sig"] != "VGATE"]
      if sorted(x["id"][:2] for x in posts) != sorted(got):
        raise PropertyViolation("posted %s while parked, dispatched %s" % (
          [x["id"][:2] for x in posts], got), "C10:placement")
      if len(posts) <= 12:
        last = max([p["ret"] or 0 for p in posts] or [0]) + 1
        # equal (sig, id) posts are interchangeable: label the pops greedily by first unused match
        unused = list(posts)
        pops = []
        ok_labels = True
        for g in got:
          m = next((x for x in unused if x["id"][:2] == g), None)
          if m is None:
            ok_labels = False
            break
          unused.remove(m)
          pops.append({"id": m["id"], "inv": last, "ret": last + 1})
        from .. import aocheck
        ok = ok_labels and self.placement_ok(posts, got, last)
        if not ok:
          raise PropertyViolation("dispatch order %s is not explained by any order of the posts %s made "
                                  "while the consumer was parked (fifo = back, lifo = front)" % (
                                    got, [(x["kind"],) + x["id"][:2] + (x["inv"], x["ret"]) for x in posts]),
                                  "C10:placement")
      else:
        stats.exclude("placement_not_checked(>12 posts)")

  @staticmethod
  def placement_ok(posts, got, last):
    """Search for an interval-respecting order of the posts whose deque result is `got`."""
    n = len(posts)
    before = [set(j for j in range(n) if j != i and posts[j]["ret"] is not None and posts[j]["ret"] < posts[i]["inv"])
              for i in range(n)]
    seen = set()

    def rec_(done, dq):
      if len(done) == n:
        return list(dq) == list(got)
      key = (done, dq)
      if key in seen:
        return False
      seen.add(key)
      if len(seen) > 200000:
        return True          # search budget exhausted: do not report
      for i in range(n):
        if i in done or not before[i] <= done:
          continue
        k = posts[i]["id"][:2]
        nd = dq + (k,) if posts[i]["kind"] == "fifo" else (k,) + dq
        if rec_(done | {i}, nd):
          return True
      return False
    return rec_(frozenset(), ())


PROP = C10
