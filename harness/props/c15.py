"""C15 - defer holds events back until recall, oldest first."""
from ..common import PropertyViolation
from .c14 import C14, brief


class C15(C14):
  id = "C15"
  quick_examples = 1200
  thorough_examples = 12000
  kinds = ("post_fifo", "post_lifo", "defer", "defer", "recall", "recall", "next_rtc",
           "next_rtc", "complete_circuit")
  action_kinds = ("post_fifo", "post_lifo", "defer", "defer_e", "recall", "recall")
  rule = ("Hypothesis-generated histories on a real HsmWithQueues: generated chart whose handlers "
          "post, defer a fresh event, defer the event being handled, and recall (budgeted) x up to 3 posts/defers made before start_at x up to "
          "25 operations from post_fifo, post_lifo, defer, recall, next_rtc, complete_circuit; unique "
          "ids; one history in four starts from a queue holding exactly its capacity (500 events), "
          "where a recall displaces the oldest queued event. Oracle: model deque + defer list: a deferred id is never dispatched before its "
          "recall; each recall (outside or inside a handler) returns the oldest deferred event (the "
          "same object for events posted from outside) and places it at the back of the queue "
          "(checked through the later dispatch order); a recall with nothing deferred returns None "
          "and changes nothing. Non-trivial: >=2 events deferred at once and >=1 recall that "
          "returned an event; distinct = distinct case digests.")
  assumptions = C14.assumptions

  def strategy(self, tier):
    from hypothesis import strategies as st
    from .. import queued
    base = queued.history(kinds=self.kinds, action_kinds=self.action_kinds, bulk=True, pre=True)

    def at_capacity(case):
      # the queue holds exactly its capacity when events are deferred and recalled: a recall then
      # displaces the oldest queued event (bounded deque), it must still return and post the event
      case = dict(case, at_capacity=True, budget=30)
      sig = case["spec"]["sigs"][0]
      case["ops"] = [["bulk_post", sig, 500], ["defer", sig], ["defer", sig], ["recall"], ["next_rtc"],
                     ["recall"], ["recall"]] + [o for o in case["ops"] if o[0] != "bulk_post"][:6]
      case["spec"] = dict(case["spec"], acts={})
      return case
    def deep_defer(case):
      # hundreds of events deferred at once, up to the defer queue's own capacity: the oldest is
      # still the first to come back
      case = dict(case, budget=30)
      sig = case["spec"]["sigs"][0]
      n = 498 + (len(case["ops"]) % 3)           # 498, 499 or 500 outstanding deferrals
      case["ops"] = [["bulk_defer", sig, n], ["recall"], ["recall"], ["next_rtc"], ["recall"]] + \
          [o for o in case["ops"] if o[0] not in ("bulk_post", "defer", "defer_same")][:6]
      case["spec"] = dict(case["spec"], acts={})
      return case
    return st.one_of(base, base, base, base, base, base.map(at_capacity), base.map(deep_defer))

  def compare_common(self, o, exp_dispatched, seen, where):
    # an event deferred by the handler that was processing it is legitimately
    # dispatched again after its recall, so only the order is compared here
    if o.dispatched != exp_dispatched:
      raise PropertyViolation("%s: dispatched ids %s, model deque + defer list gives %s" % (
        where, brief(o.dispatched), brief(exp_dispatched)), "C15:order")

  def check_recall(self, o, exp, where):
    got = o.extra["recalled"]
    want = exp[0] if exp is not None else None
    if got != want:
      raise PropertyViolation("%s: recall returned id %s, oldest deferred is %s" % (where, got, want),
                              "C15:recall")
    if not o.extra["identity"]:
      raise PropertyViolation("%s: recall returned a different object than the one deferred" % where,
                              "C15:identity")
    if o.dispatched:
      raise PropertyViolation("%s: recall dispatched %s" % (where, o.dispatched), "C15:recall")

  def compare_actions(self, real, model, where):
    for a, b in zip(real, model):
      if a[0] == "recall" and a != b:
        raise PropertyViolation("%s: handler-side recall returned id %s, oldest deferred is %s" % (
          where, a[1], b[1]), "C15:recall")

  def after_op(self, o, model, real, where, stats):
    d = len(model.d.deferred)
    self._maxdef = max(getattr(self, "_maxdef", 0), d)

  def check(self, case, stats):
    self._maxdef = 0
    return super().check(case, stats)

  def finish(self, case, model, nontrivial, classes):
    recalls = [a for a in model.actlog if a[0] == "recall" and a[1] is not None]
    ext = getattr(self, "_ext_recalls", 0)
    classes = [c for c in classes]
    if self._maxdef >= 2:
      classes.append("two_or_more_deferred")
    if recalls:
      classes.append("handler_recall_hit")
    return (self._maxdef >= 2 and (bool(recalls) or "op_recall" in classes)), classes


PROP = C15
