"""C15 - defer holds events back until recall, oldest first."""
from ..common import PropertyViolation
from .c14 import C14, brief


class C15(C14):
  id = "C15"
  quick_examples = 1200
  thorough_examples = 12000
  kinds = ("post_fifo", "post_lifo", "defer", "defer", "recall", "recall", "next_rtc",
           "next_rtc", "complete_circuit")
  action_kinds = ("post_fifo", "post_lifo", "defer", "defer_e", "recall", "recall")
  rule = ("Hypothesis-generated histories on a real HsmWithQueues: generated chart whose handlers "
          "post, defer a fresh event, defer the event being handled, and recall (budgeted) x up to 3 posts/defers made before start_at x up to "
          "25 operations from post_fifo, post_lifo, defer, recall, next_rtc, complete_circuit; unique "
          "ids; some histories start from a queue holding exactly its capacity (500 events), "
          "where a recall displaces the oldest queued event, or defer 498-500 events at once; posts, defers and recalls may be "
          "made before start_at and with live output on; a scripted family puts deferred events of a started ActiveObject "
          "next to timed posts of the same signal that fire and are cancelled. Oracle: model deque + defer list: a deferred id is never dispatched before its "
          "recall; each recall (outside or inside a handler) returns the oldest deferred event (the "
          "same object for events posted from outside) and places it at the back of the queue "
          "(checked through the later dispatch order); a recall with nothing deferred returns None "
          "and changes nothing. Non-trivial: >=2 events deferred at once and >=1 recall that "
          "returned an event; distinct = distinct case digests.")
  assumptions = C14.assumptions

  def strategy(self, tier):
    from hypothesis import strategies as st
    from .. import queued
    base = queued.history(kinds=self.kinds, action_kinds=self.action_kinds, bulk=True, pre=True)

    def at_capacity(case):
      # the queue holds exactly its capacity when events are deferred and recalled: a recall then
      # displaces the oldest queued event (bounded deque), it must still return and post the event
      case = dict(case, at_capacity=True, budget=30)
      sig = case["spec"]["sigs"][0]
      case["ops"] = [["bulk_post", sig, 500], ["defer", sig], ["defer", sig], ["recall"], ["next_rtc"],
                     ["recall"], ["recall"]] + [o for o in case["ops"] if o[0] != "bulk_post"][:6]
      case["spec"] = dict(case["spec"], acts={})
      return case
    def deep_defer(case):
      # hundreds of events deferred at once, up to the defer queue's own capacity: the oldest is
      # still the first to come back
      case = dict(case, budget=30)
      sig = case["spec"]["sigs"][0]
      n = 498 + (len(case["ops"]) % 3)           # 498, 499 or 500 outstanding deferrals
      case["ops"] = [["bulk_defer", sig, n], ["recall"], ["recall"], ["next_rtc"], ["recall"]] + \
          [o for o in case["ops"] if o[0] not in ("bulk_post", "defer", "defer_same")][:6]
      case["spec"] = dict(case["spec"], acts={})
      return case
    return st.one_of(base, base, base, base, base, base.map(at_capacity), base.map(deep_defer))

  def extra(self, tier, seed, shard, nshards, stats):
    """Deferred events of an ACTIVE OBJECT next to its timed posts: arming, cancelling (by id and by
    name) and the firing of timed sources with the same signal names never touch what is deferred -
    recall still hands back the very events that were deferred, oldest first."""
    idx = 0
    for cancel in ("events", "event", "none"):
      for nsrc in (1, 2):
        for order in (["VB", "VC", "VB"], ["VC", "VB"], ["VB"]):
          idx += 1
          if idx % nshards != shard:
            continue
          case = {"ao_defer": order, "cancel": cancel, "sources": nsrc, "schedule": []}
          try:
            self.check_ao_defer(case, stats)
          except PropertyViolation as v:
            yield case, v
            return

  def check_ao_defer(self, case, stats):
    from .c10 import TimedWorld
    from .. import detsched
    order, cancel, nsrc = case["ao_defer"], case["cancel"], case["sources"]
    w = TimedWorld(case)
    got, deferred = [], []

    def body(s):
      chart, fn = w.make_chart(s)
      chart.start_at(fn)
      s.quiesce()
      for k, sg in enumerate(order):
        e = w.Event(signal=w.signals[sg], payload=700 + k)
        deferred.append(e)
        chart.defer(e)
      ids = [chart.post_fifo(w.Event(signal=w.signals["VB"], payload=k), period=0.5, times=0, deferred=True)
             for k in range(nsrc)]
      s.sleep_until(s.now + 1.2)
      if cancel == "events":
        chart.cancel_events(w.Event(signal=w.signals["VB"]))
      elif cancel == "event":
        for i in ids:
          chart.cancel_event(i)
      for _ in range(len(order) + 1):
        got.append(chart.recall())
      chart.cancel_events(w.Event(signal=w.signals["VB"]))
      s.quiesce()
    try:
      w.run(body)
    except (detsched.Deadlock, detsched.StepLimit) as e:
      raise PropertyViolation("active object with deferred events and timed posts: %s" % e, "C15:liveness")
    stats.case(case, True, ["active_object_with_timed_posts"])
    if len(got) != len(deferred) + 1 or any(a is not b for a, b in zip(got, deferred)) or got[-1] is not None:
      raise PropertyViolation(
        "an active object deferred %s, armed %d timed post(s) of VB, cancelled by %s: recall returned %s, "
        "expected the deferred events themselves, oldest first, then None" % (
          order, nsrc, cancel, [(g.signal_name, g.payload) if g is not None else None for g in got]),
        "C15:recall")

  def compare_common(self, o, exp_dispatched, seen, where):
    # an event deferred by the handler that was processing it is legitimately
    # dispatched again after its recall, so only the order is compared here
    if o.dispatched != exp_dispatched:
      raise PropertyViolation("%s: dispatched ids %s, model deque + defer list gives %s" % (
        where, brief(o.dispatched), brief(exp_dispatched)), "C15:order")

  def check_recall(self, o, exp, where):
    got = o.extra["recalled"]
    want = exp[0] if exp is not None else None
    if got != want:
      raise PropertyViolation("%s: recall returned id %s, oldest deferred is %s" % (where, got, want),
                              "C15:recall")
    if not o.extra["identity"]:
      raise PropertyViolation("%s: recall returned a different object than the one deferred" % where,
                              "C15:identity")
    if o.dispatched:
      raise PropertyViolation("%s: recall dispatched %s" % (where, o.dispatched), "C15:recall")

  def compare_actions(self, real, model, where):
    for a, b in zip(real, model):
      if a[0] == "recall" and a != b:
        raise PropertyViolation("%s: handler-side recall returned id %s, oldest deferred is %s" % (
          where, a[1], b[1]), "C15:recall")

  def after_op(self, o, model, real, where, stats):
    d = len(model.d.deferred)
    self._maxdef = max(getattr(self, "_maxdef", 0), d)

  def check(self, case, stats):
    if "ao_defer" in case:
      return self.check_ao_defer(case, stats)
    self._maxdef = 0
    return super().check(case, stats)

  def finish(self, case, model, nontrivial, classes):
    recalls = [a for a in model.actlog if a[0] == "recall" and a[1] is not None]
    ext = getattr(self, "_ext_recalls", 0)
    classes = [c for c in classes]
    if self._maxdef >= 2:
      classes.append("two_or_more_deferred")
    if recalls:
      classes.append("handler_recall_hit")
    return (self._maxdef >= 2 and (bool(recalls) or "op_recall" in classes)), classes


PROP = C15
