"""C01 - transitions run exits, entries and initial transitions in UML order."""
import itertools
from hypothesis import strategies as st

from ..run import Prop
from ..common import PropertyViolation
from .. import chartgen, hsmcheck
from ..refmodel import Model
from ..chartgen import descendants


@st.composite
def y_case(draw):
  """Deep two-branch charts: trunk, a short branch and a long branch whose states
  chain initial transitions, so long entry paths are followed by deep init chains."""
  p = draw(st.integers(0, 2))
  q = draw(st.integers(1, 5))
  r = draw(st.integers(1, 10))
  parent = []
  for i in range(p):
    parent.append(i - 1)
  base = p - 1
  a = []
  for j in range(q):
    parent.append(base if j == 0 else len(parent) - 1)
    a.append(len(parent) - 1)
  b = []
  for j in range(r):
    parent.append(base if j == 0 else len(parent) - 1)
    b.append(len(parent) - 1)
  n = len(parent)
  init = [None] * n
  for br, ln in ((b, r), (a, q)):
    j = draw(st.integers(0, ln))
    while j < ln - 1:
      tgt = min(ln - 1, j + draw(st.integers(1, 6)))
      init[br[j]] = br[tgt]
      j = tgt
  if p and draw(st.booleans()):
    init[p - 1] = draw(st.sampled_from([a[0], b[0]]))
  sigs = ["VA", "VB"]
  react = [dict() for _ in range(n)]
  S = draw(st.sampled_from(a + list(range(p)) + b))
  T = draw(st.integers(0, n - 1))
  react[S]["VA"] = ["trans", T]
  S2 = draw(st.integers(0, n - 1))
  react[S2]["VB"] = ["trans", draw(st.integers(0, n - 1))]
  flags = lambda: [draw(st.integers(0, 9)) > 0 for _ in range(n)]
  spec = {"n": n, "parent": parent, "init": init, "react": react, "sigs": sigs,
          "entry": flags(), "exit": flags(), "initc": flags(),
          "spy": draw(st.booleans()), "acts": {}}
  start = draw(st.sampled_from(a + b))
  events = draw(st.lists(st.sampled_from(sigs), min_size=1, max_size=6))
  return {"spec": spec, "start": start, "events": events}


class C01(Prop):
  id = "C01"
  quick_examples = 4000
  thorough_examples = 20000
  rule = ("Hypothesis-generated charts (random forests of 1-12 states biased to depth, and "
          "deep two-branch 'Y' charts with chained initial transitions) x start state x event "
          "list, hosted on the plain/instrumented/queued processor with or without the "
          "decorator; thorough adds bounded-exhaustive enumeration of every forest of <=4 "
          "states x every init assignment x every (start, S, T). Oracle: reference model "
          "(exit cur..L, enter L..T, follow inits) compared with the handlers' own "
          "entry/exit/init action log and the resting state. A case is non-trivial when "
          "some step takes a transition with |exits|+|entries| >= 2 or init depth >= 1; "
          "distinct = distinct (chart, start, events) digests.")
  assumptions = [
    "observes handler-side action logs and chart.state_name only",
    "entry/exit/init invocations of states that have no such clause are not compared",
    "steps after a C02/C03-only mismatch are not examined",
  ]
  aspects = ("order", "error")

  def strategy(self, tier):
    hosts = st.sampled_from(["plain", "instr", "queued", "queued_off"])
    base = st.one_of(chartgen.chart_case(max_events=10), y_case())
    return st.tuples(base, hosts).map(lambda t: dict(t[0], host=t[1]))

  def classify(self, case, reports, model):
    classes, nontrivial = [], False
    for rep in reports:
      res = rep.res
      if res["kind"] != "trans":
        continue
      classes.append("topology_" + model.topology(res))
      classes.append("initdepth_%d" % min(res["init_depth"], 5))
      if len(res["exits"]) + len(res["entries"]) >= 2 or res["init_depth"] >= 1:
        nontrivial = True
      jump = self.max_init_jump(model, res)
      classes.append("initjump_%d" % min(jump, 5))
      if len(res["entries"]) > 3 and jump >= 4:
        classes.append("long_entry_then_init_jump_ge4")
    classes.append("host_" + case.get("host", "instr"))
    return nontrivial, classes

  @staticmethod
  def max_init_jump(model, res):
    """Largest number of levels a single initial transition of this step descends."""
    t, best = res["T"], 0
    while model.init[t] is not None:
      best = max(best, model.depth(model.init[t]) - model.depth(t))
      t = model.init[t]
    return best

  def check(self, case, stats):
    decorate = case["spec"]["spy"]
    reports, start, model, rt, chart = hsmcheck.run_case(case, decorate=decorate)
    nontrivial, classes = self.classify(case, reports, model)
    stats.case(case, nontrivial, classes)
    bad = None
    if start.aspect == "error":
      stats.exclude("start_failed(C03 domain)")
    for rep in reports:
      if rep.aspect in self.aspects:
        bad = rep
      elif rep.aspect:
        stats.exclude("desync_by_%s" % rep.aspect)
    if bad is not None:
      raise PropertyViolation(bad.msg, "C01:" + bad.aspect)

  def extra(self, tier, seed, shard, nshards, stats):
    if tier != "thorough":
      return
    idx = 0
    for parent in hsmcheck.small_forests(4):
      n = len(parent)
      choices = [[None] + descendants(parent, i) for i in range(n)]
      for init in itertools.product(*choices):
        for start, S, T in itertools.product(range(n), repeat=3):
          idx += 1
          if idx % nshards != shard:
            continue
          react = [dict() for _ in range(n)]
          react[S]["VA"] = ["trans", T]
          spec = {"n": n, "parent": parent, "init": list(init), "react": react,
                  "sigs": ["VA"], "entry": [True] * n, "exit": [True] * n,
                  "initc": [True] * n, "spy": bool(idx & 1), "acts": {}}
          case = {"spec": spec, "start": start, "events": ["VA", "VA"],
                  "host": ("plain", "instr", "queued")[idx % 3]}
          try:
            self.check(case, stats)
          except PropertyViolation as v:
            yield case, v
            return
    stats.notes.append("bounded-exhaustive: all forests <=4 states x inits x (start,S,T)")


PROP = C01
