"""C31 - a rejected timed post never fires."""
from hypothesis import strategies as st

from ..run import Prop
from ..common import PropertyViolation
from .. import detsched, aocheck
from .c04 import schedule_st
from .c10 import TimedWorld, expected_instants


@st.composite
def reject_case(draw):
  cap = draw(st.sampled_from([1, 2, 3, 3, 5]))
  tracked = [{"kind": draw(st.sampled_from(["fifo", "lifo"])),
              "period": draw(st.sampled_from([0.5, 1.0, 2.0])), "times": draw(st.sampled_from([0, 0, 0, 1, 2])),
              "deferred": draw(st.booleans())} for _ in range(cap)]
  rejected = {"kind": draw(st.sampled_from(["fifo", "lifo"])),
              "period": draw(st.sampled_from([0, 0.0, 1e-6, 0.25, 0.5, 5.0])),   # 0: a back-to-back burst
              "times": draw(st.sampled_from([0, 1, 3])),
              "deferred": draw(st.sampled_from([False, False, True]))}
  # several threads ask for a timed source at the same moment while exactly one slot is free
  callers = draw(st.sampled_from([0, 0, 2, 3]))
  if callers:
    tracked = tracked[:-1]
    if rejected["period"] < 0.25 and rejected["times"] == 0:
      rejected["times"] = 3          # (one of the callers is accepted: no endless back-to-back source)
  return {"cap": cap, "tracked": tracked, "rejected": rejected, "callers": callers,
          "delay": draw(st.sampled_from([0.0, 0.0, 1.25, 5.0])),   # finite tracked sources may have finished
          "attempts": draw(st.integers(1, 2)), "schedule": [list(x) for x in draw(schedule_st)]}


class C31(Prop):
  id = "C31"
  quick_examples = 300
  thorough_examples = 3000
  rule = ("Generated scenarios under the deterministic scheduler and virtual clock: an ActiveObject "
          "subclass that declares QUEUE_SIZE 1..5 (its limit of tracked timed sources; thorough adds "
          "the shipped limit of 500 and a subclass limit of 506) is filled to that limit with tracked sources (periods 0.5-2.0, "
          "deferred or not, endless or 1-2 shots), then - at once or after 1.25 / 5 s, when the "
          "finite ones have finished but still occupy their slots - 1-2 further timed posts are attempted (fifo/lifo, period 0 (a back-to-back burst), 1e-6..5, "
          "times 0/1/3, deferred or not) under generated schedules, and time runs on for several "
          "periods; in half of the cases one slot is left free and 2-3 threads ask for a timed source at the same moment (exactly one is accepted, the others are refused and never post). Oracle: every further attempt raises ActiveObjectOutOfPostedEventResources; the "
          "rejected source's event is never posted (no post invocation carrying its id, at any "
          "time); every tracked source still posts at exactly its expected instants. Non-trivial: "
          "the rejected post is not deferred (its first posting would be immediate); distinct = "
          "distinct case digests.")
  assumptions = ["the source limit is set the documented way, by a subclass attribute QUEUE_SIZE"]

  def strategy(self, tier):
    return reject_case()

  def extra(self, tier, seed, shard, nshards, stats):
    if tier != "thorough" or shard != 0:
      return
    from ..common import Stats
    for deferred, cap in ((False, 500), (True, 500), (False, 506)):
      # (506: a subclass that asks for MORE than the shipped limit)
      case = {"cap": cap, "tracked": [{"kind": "fifo", "period": 50.0, "times": 0, "deferred": True}] * cap,
              "rejected": {"kind": "fifo", "period": 0.25, "times": 1, "deferred": deferred},
              "attempts": 1, "schedule": []}
      try:
        self.check(case, stats)
      except PropertyViolation as v:
        yield case, v
        return

  def check(self, case, stats):
    w = TimedWorld(case)
    Event, signals, rec = w.Event, w.signals, w.rec
    ao = w.ao
    info = {"raised": [], "t0": None}

    def body(s):
      base = aocheck.make_ao_class(rec)
      if case["cap"] == 500:
        klass = base
      else:
        klass = type("VfSmallAO", (base,), {"QUEUE_SIZE": case["cap"]})
      chart, fn = w.make_chart(s, "ao1", klass=klass)
      chart.start_at(fn)
      s.quiesce()
      info["t0"] = s.now
      for k, src in enumerate(case["tracked"]):
        getattr(chart, "post_" + src["kind"])(Event(signal=signals["VB"], payload=k), period=src["period"],
                                              times=src["times"], deferred=src["deferred"])
      if case.get("delay"):
        s.sleep_until(info["t0"] + case["delay"])
      rj = case["rejected"]

      def attempt(a):
        try:
          getattr(chart, "post_" + rj["kind"])(Event(signal=signals["VC"], payload=9000 + a),
                                               period=rj["period"], times=rj["times"], deferred=rj["deferred"])
          info["outcome"][a] = None
        except ao.ActiveObjectOutOfPostedEventResources:
          info["outcome"][a] = "ActiveObjectOutOfPostedEventResources"
        except Exception as e:
          info["outcome"][a] = type(e).__name__
      if case.get("callers"):
        info["outcome"] = {}
        ths = [ao.Thread(target=attempt, args=(a,), name="caller%d" % a) for a in range(case["callers"])]
        for t in ths:
          t.start()
        for t in ths:
          t.join()
      for a in range(0 if case.get("callers") else case["attempts"]):
        try:
          getattr(chart, "post_" + rj["kind"])(Event(signal=signals["VC"], payload=9000 + a),
                                               period=rj["period"], times=rj["times"], deferred=rj["deferred"])
          info["raised"].append(None)
        except ao.ActiveObjectOutOfPostedEventResources:
          info["raised"].append("ActiveObjectOutOfPostedEventResources")
        except Exception as e:
          info["raised"].append(type(e).__name__)
      horizon = info["t0"] + case.get("delay", 0.0) + (4.0 if case["cap"] < 500 else 1.0)
      info["horizon"] = horizon
      s.sleep_until(horizon)
      info["posts"] = [dict(p) for p in rec.posts]
      chart.cancel_events(Event(signal=signals["VB"]))
      chart.cancel_events(Event(signal=signals["VC"]))
      s.quiesce()

    import io
    import contextlib
    try:
      with contextlib.redirect_stdout(io.StringIO()):     # miros pretty-prints its source table on rejection
        s = w.run(body, step_limit=3000000 if case["cap"] >= 500 else 600000)
    except (detsched.Deadlock, detsched.StepLimit) as e:
      raise PropertyViolation("no quiescence: %s" % e, "C31:liveness")
    if s.thread_errors:
      name, e, tb = s.thread_errors[0]
      raise PropertyViolation("thread %s died: %s: %s" % (name, type(e).__name__, e), "C31:thread-error")
    rj = case["rejected"]
    stats.case(case, rj["deferred"] is False,
               ["cap_%d" % case["cap"], "rejected_deferred_%s" % rj["deferred"], "attempts_%d" % case["attempts"]] +
               (["callers_at_once_%d" % case["callers"]] if case.get("callers") else []))
    if case.get("callers"):
      return self.judge_callers(case, info, stats)
    if any(r != "ActiveObjectOutOfPostedEventResources" for r in info["raised"]):
      raise PropertyViolation("a timed post beyond the limit of %d sources gave %s" % (
        case["cap"], info["raised"]), "C31:no-exception")
    fired = [p for p in info["posts"] if p["sig"] == "VC"]
    if fired:
      self.violation(stats, "the rejected source (%s, period %s, deferred %s) posted its event anyway: %s" % (
        rj["kind"], rj["period"], rj["deferred"], [(p["id"], p["now"], p["inv"]) for p in fired]),
        "C31:rejected-source-fires")
    for k, src in enumerate(case["tracked"]):
      got = [p["now"] for p in info["posts"] if p["sig"] == "VB" and p["id"] == k]
      want = expected_instants(info["t0"], src["period"], src["times"], src["deferred"], info["horizon"])
      if got != want:
        raise PropertyViolation("tracked source %d posted at %s, expected %s" % (k, got, want),
                                "C31:tracked-disturbed")


  def judge_callers(self, case, info, stats):
    """One slot was free and several threads asked at once: one of them got it, every other one
    was refused, and no refused source ever posted."""
    rj, out = case["rejected"], info["outcome"]
    odd = [v for v in out.values() if v not in (None, "ActiveObjectOutOfPostedEventResources")]
    accepted = sorted(a for a, v in out.items() if v is None)
    if odd or len(out) != case["callers"] or len(accepted) != 1:
      raise PropertyViolation("%d threads asked for a timed source at once with one slot free (limit %d): outcomes %s" % (
        case["callers"], case["cap"], [out.get(a, "no answer") for a in range(case["callers"])]), "C31:no-exception")
    fired = [p for p in info["posts"] if p["sig"] == "VC" and p["id"] - 9000 not in accepted]
    if fired:
      self.violation(stats, "%d threads asked for a timed source at once with one slot free; the refused source(s) (%s, period %s, "
                     "deferred %s) posted anyway: %s (outcomes %s)" % (
                       case["callers"], rj["kind"], rj["period"], rj["deferred"],
                       [(p["id"], p["now"], p["inv"]) for p in fired], [out[a] for a in range(case["callers"])]),
                     "C31:rejected-source-fires")
    for k, src in enumerate(case["tracked"]):
      got = [p["now"] for p in info["posts"] if p["sig"] == "VB" and p["id"] == k]
      want = expected_instants(info["t0"], src["period"], src["times"], src["deferred"], info["horizon"])
      if got != want:
        raise PropertyViolation("tracked source %d posted at %s, expected %s" % (k, got, want), "C31:tracked-disturbed")


PROP = C31
