"""C17 - factory/template charts and their to_code text behave like hand-written charts."""
from hypothesis import strategies as st

from ..run import Prop
from ..common import PropertyViolation, HarnessBound
from .. import chartgen, hsmcheck, detsched
from ..refmodel import Model
from ..hsmcheck import name_of
from ..chartgen import state_name


class Build:
  """One build of a generated chart out of uniquely named logging callbacks."""

  def __init__(self, spec):
    self.spec = spec
    self.flavours = spec.get("flavours") or ["function"]
    self.log = []
    self.counters = {}
    self.fns = {}          # state index -> state function of this build

  def callbacks(self, chart=None):
    """{(i, key): function} with key ENTRY/EXIT/INIT/<sig>; only for clauses that exist.
    With a chart, the 'method' flavour hands out methods bound to that chart (called with the
    event only)."""
    from miros.event import return_status
    spec, out = self.spec, {}

    def mk(i, key, kind, arg=None):
      def cb(chart, e):
        self.log.append((key if key in ("ENTRY", "EXIT", "INIT") else "SIG", i) +
                        ((key,) if key not in ("ENTRY", "EXIT", "INIT") else ()))
        k, a = kind, arg
        if kind == "guard":
          c = self.counters.get((i, key), 0)
          self.counters[(i, key)] = c + 1
          k, a = ("trans", arg[1]) if c % arg[0] == 0 else ("decline", None)
        if k == "trans":
          return chart.trans(self.fns[a])
        if k == "decline":
          return return_status.UNHANDLED
        if k == "ignore":
          return return_status.IGNORED
        return return_status.HANDLED
      cb.__name__ = cb.__qualname__ = "vcb_%d_%s" % (i, key)
      # callbacks need not be plain functions: partial objects and callable objects are callables
      flavour = self.flavours[(i * 7 + len(key) + ord(key[-1])) % len(self.flavours)]
      if flavour == "partial":
        import functools

        def with_extra(extra, chart, e):
          return cb(chart, e)
        p = functools.partial(with_extra, "x")
        p.__name__ = cb.__name__
        return p
      if flavour == "method" and chart is not None:
        import types

        def as_method(self_, e):
          return cb(self_, e)
        as_method.__name__ = as_method.__qualname__ = cb.__name__
        return types.MethodType(as_method, chart)
      if flavour == "object":
        class Callable_:
          def __call__(self_, chart, e):
            return cb(chart, e)
        o = Callable_()
        o.__name__ = cb.__name__
        return o
      return cb
    for i in range(spec["n"]):
      if spec["entry"][i]:
        out[(i, "ENTRY")] = mk(i, "ENTRY", "handle")
      if spec["exit"][i]:
        out[(i, "EXIT")] = mk(i, "EXIT", "handle")
      if spec["init"][i] is not None:
        out[(i, "INIT")] = mk(i, "INIT", "trans", spec["init"][i])
      elif spec["initc"][i]:
        out[(i, "INIT")] = mk(i, "INIT", "handle")
      for sig, r in spec["react"][i].items():
        if r[0] == "trans":
          out[(i, sig)] = mk(i, sig, "trans", r[1])
        elif r[0] == "guard":
          out[(i, sig)] = mk(i, sig, "guard", (r[1], r[2]))
        else:
          out[(i, sig)] = mk(i, sig, r[0])
    return out


def signum(key):
  from miros.event import signals
  return {"ENTRY": signals.ENTRY_SIGNAL, "EXIT": signals.EXIT_SIGNAL, "INIT": signals.INIT_SIGNAL}.get(key) \
      or signals[key]


def build_template(spec, chart):
  """state_method_template + register_signal_callback + register_parent on `chart`."""
  from miros.hsm import state_method_template
  b = Build(spec)
  for i in range(spec["n"]):
    b.fns[i] = state_method_template(state_name(i))
  for (i, key), cb in b.callbacks(chart).items():
    chart.register_signal_callback(b.fns[i], signum(key), cb)
  if spec.get("reparent") and spec["n"] > 1:
    # a first draft of the hierarchy that is corrected afterwards: the last registration counts
    for i in range(spec["n"]):
      chart.register_parent(b.fns[i], b.fns[(i + 1) % spec["n"]])
  for i in range(spec["n"]):
    p = spec["parent"][i]
    chart.register_parent(b.fns[i], chart.top if p == -1 else b.fns[p])
  return b


def build_factory(spec, factory, by_name=False):
  """Factory.create(state=...).catch(signal=..., handler=...).to_method() + nest(); with by_name
  the states are handed to nest() by the names they were created under."""
  b = Build(spec)
  cbs = b.callbacks(factory)
  for i in range(spec["n"]):
    bp = factory.create(state=state_name(i))
    for (j, key), cb in cbs.items():
      if j == i:
        bp = bp.catch(signal=signum(key), handler=cb)
    b.fns[i] = bp.to_method()
  if spec.get("reparent") and spec["n"] > 1:
    for i in range(spec["n"]):
      factory.nest(b.fns[i], parent=b.fns[(i + 1) % spec["n"]])
  for i in range(spec["n"]):
    p = spec["parent"][i]
    if by_name:
      factory.nest(state_name(i), parent=None if p == -1 else state_name(p))
    else:
      factory.nest(b.fns[i], parent=None if p == -1 else b.fns[p])
  return b


def build_from_code(spec, source_chart, source_build, by_name=False):
  """exec the to_code text of every state of `source_chart` (asked for by state function, or - a
  Factory accepts that - by the name the state was created under)."""
  from miros.event import signals, return_status
  from miros.hsm import spy_on as deco
  b = Build(spec)
  ns = {"spy_on": deco, "signals": signals, "return_status": return_status}
  for (i, key), cb in b.callbacks().items():
    ns[cb.__name__] = cb
  texts = []
  for i in range(spec["n"]):
    text = source_chart.to_code(state_name(i) if by_name else source_build.fns[i])
    texts.append(text)
    exec(compile(text, "<to_code %s>" % state_name(i), "exec"), ns)
  for i in range(spec["n"]):
    b.fns[i] = ns[state_name(i)]
  b.texts = texts
  return b


class C17(Prop):
  id = "C17"
  quick_examples = 500
  thorough_examples = 3000
  rule = ("One Hypothesis-generated chart (forest of 1-8 states, initial transitions, reactions "
          "handle / transition / decline / counter-guard / answer IGNORED, states with and without entry, exit and "
          "init callbacks) is built five ways out of uniquely named logging callbacks (plain "
          "functions, functools.partial objects, callable objects or methods bound to the chart, each carrying a __name__): hand-written "
          "closures; state_method_template + register_signal_callback + register_parent on an "
          "HsmWithQueues (two charts are built from the same recipe before either is started; in half the cases a "
          "third template chart gets one of its callbacks registered only after it has processed some "
          "events, and must answer from then on); the "
          "to_code text of every template state exec'd in a namespace holding spy_on, signals, "
          "return_status and the callbacks; Factory.create/catch/nest (function-object form) as a "
          "started active object under the deterministic scheduler; and the Factory's to_code text. "
          "Oracle: for start_at and every event, the callback action log (entries, exits, inits, "
          "user-signal callbacks) and the resting state are identical across all builds and equal "
          "to the reference model. Non-trivial: the chart has a state with no registered "
          "entry/exit/init callback or a declining callback that is reached; distinct = distinct "
          "case digests.")
  assumptions = ["entry/exit callbacks return HANDLED; only user-signal callbacks decline; callback names "
                 "are unique and never the magic name 'handled'; Factory calls use function objects",
                 "signal names are identifiers (to_code writes signals.<NAME>)"]

  def strategy(self, tier):
    def some_callback(case):
      # (a chart without a single callback is a legal table too: every event is ignored, the start
      # path is entered silently)
      return case
    flav = st.sampled_from([["function"], ["function"], ["function", "partial", "object", "method"], ["partial"],
                            ["object"], ["method"], ["function", "method"]])
    def library_signal(case, pick):
      # a callback table may also catch one of the library's own dispatched signals
      if pick != 0:
        return case
      spec = case["spec"]
      old, new = spec["sigs"][0], "STOP_FABRIC_SIGNAL"
      ren = lambda x: new if x == old else x
      spec = dict(spec, sigs=[ren(x) for x in spec["sigs"]],
                  react=[dict((ren(k), v) for k, v in r.items()) for r in spec["react"]])
      return dict(case, spec=spec, events=[ren(x) for x in case["events"]])

    def redraft(case, pick):
      return dict(case, spec=dict(case["spec"], reparent=True)) if pick == 0 else case
    def ignoring(case, pick):
      # some callbacks answer IGNORED instead of HANDLED ("seen, dropped"): the search ends there too
      if pick != 0:
        return case
      spec, k = case["spec"], [0]

      def conv(r):
        if r[0] in ("handle", "decline"):
          k[0] += 1
          if k[0] % 2:
            return ["ignore"]
        return r
      return dict(case, spec=dict(spec, react=[dict((sg, conv(r)) for sg, r in sorted(x.items())) for x in spec["react"]]))
    return st.tuples(chartgen.chart_case(max_events=8, max_states=8, max_sigs=3, spy=True), flav,
                     st.one_of(st.none(), st.integers(0, 200)), st.integers(0, 2), st.integers(0, 3),
                     st.integers(0, 2), st.integers(0, 2)).map(
      lambda t: some_callback(ignoring(redraft(library_signal(dict(t[0], spec=dict(t[0]["spec"], flavours=t[1]), late=t[2],
                                                                   by_name=(t[3] == 0)), t[4]), t[5]), t[6])))

  def transcript_direct(self, case, chart, build):
    from miros.event import Event, signals
    out = []
    chart.start_at(build.fns[case["start"]])
    out.append((list(build.log), chart.state_name))
    for sig in case["events"]:
      del build.log[:]
      chart.dispatch(Event(signal=signals[sig]))
      out.append((list(build.log), chart.state_name))
    return out

  def expected(self, case):
    spec = case["spec"]
    m = Model(spec)

    def vis(seq):
      out = []
      for x in seq:
        if x[0] == "SIG":
          out.append(("SIG", x[1], x[2]))
        elif (x[0] == "ENTRY" and spec["entry"][x[1]]) or (x[0] == "EXIT" and spec["exit"][x[1]]) or \
             (x[0] == "INIT" and (spec["initc"][x[1]] or spec["init"][x[1]] is not None)):
          out.append((x[0], x[1]))
      return out
    out = [(vis(m.start(case["start"])), name_of(m.cur))]
    reached_decline = False
    for sig in case["events"]:
      res = m.step(sig)
      if any(o == "decline" for _, o in res["offers"]):
        reached_decline = True
      out.append((vis(res["seq"]), name_of(m.cur)))
    return out, reached_decline

  def check(self, case, stats):
    from miros.event import Event, signals
    spec = case["spec"]
    for s_ in spec["sigs"]:
      signals.append(s_)
    want, reached_decline = self.expected(case)
    bare = any(not (spec["entry"][i] and spec["exit"][i] and (spec["initc"][i] or spec["init"][i] is not None))
               for i in range(spec["n"]))
    stats.case(case, bare or reached_decline,
               (["state_without_some_callback"] if bare else []) + (["decline_reached"] if reached_decline else []))
    results = {}

    def guarded(name, fn):
      try:
        results[name] = fn()
      except HarnessBound as e:
        results[name] = [("did not terminate", str(e))]
      except PropertyViolation:
        raise
      except Exception as e:
        results[name] = [("raised", "%s: %s" % (type(e).__name__, e))]

    # hand-written closures
    rt = chartgen.build(spec, decorate=True)

    def hand():
      chart = hsmcheck.make_host("queued")
      out = []
      chart.start_at(rt.fns[case["start"]])
      out.append(([tuple(x[:3]) if x[0] == "SIG" else x for x in rt.log], chart.state_name))
      for sig in case["events"]:
        rt.clear()
        chart.dispatch(Event(signal=signals[sig]))
        out.append(([tuple(x[:3]) if x[0] == "SIG" else x for x in rt.log], chart.state_name))
      return out
    guarded("hand-written", hand)

    # template, twice from the same recipe, both built before either runs
    t1, t2 = hsmcheck.make_host("queued"), hsmcheck.make_host("queued")
    b1, b2 = build_template(spec, t1), build_template(spec, t2)
    guarded("template", lambda: self.transcript_direct(case, t1, b1))
    guarded("template (second chart of the same recipe)", lambda: self.transcript_direct(case, t2, b2))

    def from_code(src_chart, src_build, label):
      bc = build_from_code(spec, src_chart, src_build, by_name=bool(case.get("by_name")))
      # the functions made from the to_code text are nobody's generated handlers: count their calls
      # so that a hierarchy that goes round in circles is cut short instead of hanging the check
      import sys
      calls = [0]

      def counting(frame, event, arg):
        if event == "call" and frame.f_code.co_filename.startswith("<to_code"):
          calls[0] += 1
          if calls[0] > 50000:
            raise HarnessBound("state functions made from the to_code text were called more than 50000 times")
        return None
      sys.settrace(counting)
      try:
        return self.transcript_direct(case, hsmcheck.make_host("queued"), bc)
      finally:
        sys.settrace(None)
    guarded("to_code(template)", lambda: from_code(t1, b1, "template"))

    # Factory as a started active object under the scheduler
    ao = detsched.install()
    detsched.reset(ao)
    files = detsched.miros_files()
    holder = {}

    def body(s):
      f = chartgen.bounded(ao.Factory)("vfactory")
      bf = build_factory(spec, f, by_name=bool(case.get("by_name")))
      holder["f"], holder["bf"] = f, bf
      out = []
      f.start_at(state_name(case["start"]) if case.get("by_name") else bf.fns[case["start"]])
      s.quiesce()
      out.append((list(bf.log), f.state_name))
      for sig in case["events"]:
        del bf.log[:]
        f.post_fifo(Event(signal=signals[sig]))
        s.quiesce()
        out.append((list(bf.log), f.state_name))
      return out

    def factory():
      s = detsched.Scheduler(schedule=[], step_limit=400000, trace_files=[files["activeobject"]])
      try:
        out = detsched.guarded_run(s, body)
      except (detsched.Deadlock, detsched.StepLimit) as e:
        return [("no quiescence", str(e))]
      if s.thread_errors:
        n_, e, tb = s.thread_errors[0]
        return [("thread died", "%s: %s" % (type(e).__name__, e))]
      return out
    guarded("factory", factory)
    if "f" in holder:
      guarded("to_code(factory)", lambda: from_code(holder["f"], holder["bf"], "factory"))

    # a callback registered AFTER the chart has been running: the state answers from then on
    late = case.get("late")
    cands = [(i, sg) for i in range(spec["n"]) for sg, r in sorted(spec["react"][i].items()) if r[0] != "guard"]
    def sole(i, sg):
      # the state's ONLY callback (registering it later is the state's very first registration)
      return not (spec["entry"][i] or spec["exit"][i] or spec["initc"][i] or spec["init"][i] is not None) \
          and list(spec["react"][i]) == [sg]
    if late is not None and cands and case["events"]:
      preferred = [c for c in cands if sole(*c)] if late % 3 else []
      i_l, sg_l = (preferred or cands)[late % len(preferred or cands)]
      k_l = 1 + late % len(case["events"])      # after at least one event has passed through
      if late % 3 == 1 and spec["init"][i_l] is None:
        # make it the state's very FIRST callback, and make sure the state is asked about that
        # signal before and after the registration
        import copy as _copy
        spec = _copy.deepcopy(spec)
        spec["entry"][i_l] = spec["exit"][i_l] = spec["initc"][i_l] = False
        spec["react"][i_l] = {sg_l: spec["react"][i_l][sg_l]}
        case = dict(case, spec=spec, start=i_l, events=[sg_l] * len(case["events"]))
      import copy
      spec0 = copy.deepcopy(spec)
      del spec0["react"][i_l][sg_l]
      if any(spec0["entry"]) or any(spec0["exit"]) or any(spec0["initc"]) or any(x is not None for x in spec0["init"]) \
         or any(spec0["react"]):
        m = Model(copy.deepcopy(spec0))     # the model's reactions are updated mid-history

        def vis2(seq):
          out = []
          for x in seq:
            if x[0] == "SIG":
              out.append(("SIG", x[1], x[2]))
            elif (x[0] == "ENTRY" and spec["entry"][x[1]]) or (x[0] == "EXIT" and spec["exit"][x[1]]) or \
                 (x[0] == "INIT" and (spec["initc"][x[1]] or spec["init"][x[1]] is not None)):
              out.append((x[0], x[1]))
          return out
        want_l = [(vis2(m.start(case["start"])), name_of(m.cur))]
        for n_, sig in enumerate(case["events"]):
          if n_ == k_l:
            m.react[i_l][sg_l] = spec["react"][i_l][sg_l]
          want_l.append((vis2(m.step(sig)["seq"]), name_of(m.cur)))

        def late_run():
          t3 = hsmcheck.make_host("queued")
          b3 = build_template(spec0, t3)
          full = Build(spec)
          full.fns, full.log, full.counters = b3.fns, b3.log, b3.counters
          cb = full.callbacks()[(i_l, sg_l)]
          out = []
          t3.start_at(b3.fns[case["start"]])
          out.append((list(b3.log), t3.state_name))
          for n_, sig in enumerate(case["events"]):
            if n_ == k_l:
              t3.register_signal_callback(b3.fns[i_l], signum(sg_l), cb)
            del b3.log[:]
            t3.dispatch(Event(signal=signals[sig]))
            out.append((list(b3.log), t3.state_name))
          return out
        guarded("template (callback registered late)", late_run)
        got_l = results.pop("template (callback registered late)")
        if got_l != want_l:
          k = next(i for i in range(max(len(got_l), len(want_l))) if i >= len(got_l) or i >= len(want_l) or got_l[i] != want_l[i])
          raise PropertyViolation(
            "a callback for %s registered on %s before event %d: step %d of the template chart gives %s, "
            "the reference model gives %s" % (sg_l, name_of(i_l), k_l, k - 1, got_l[k] if k < len(got_l) else None,
                                                want_l[k] if k < len(want_l) else None), "C17:late-registration")

    for name, got in results.items():
      if got != want:
        k = next(i for i in range(max(len(got), len(want))) if i >= len(got) or i >= len(want) or got[i] != want[i])
        what = "start_at(%s)" % name_of(case["start"]) if k == 0 else "event %d (%s)" % (k - 1, case["events"][k - 1])
        raise PropertyViolation("%s: the %s build gives %s, the reference model gives %s" % (
          what, name, got[k] if k < len(got) else None, want[k] if k < len(want) else None),
          "C17:" + name.split(" ")[0].split("(")[0])


PROP = C17
