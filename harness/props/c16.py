"""C16 - pending-event queues stay bounded, never block, and keep lifo posts."""
import queue as stdqueue
from hypothesis import strategies as st

from ..run import Prop
from ..common import PropertyViolation, HarnessBound
from .. import chartgen, hsmcheck

CAP = 500


class WouldBlock(BaseException):
  """A blocking queue operation that could never complete (single-threaded harness)."""


def strict_queue_class():
  class StrictQueue(stdqueue.Queue):
    def put(self, item, block=True, timeout=None):
      if block and timeout is None and self.maxsize > 0 and self.qsize() >= self.maxsize:
        raise WouldBlock("put on a full token queue")
      return super().put(item, block, timeout)

    def get(self, block=True, timeout=None):
      if block and timeout is None and self.qsize() == 0:
        raise WouldBlock("get on an empty token queue")
      return super().get(block, timeout)
  return StrictQueue


def one_removed(old, new):
  """new == old with exactly one element removed (order kept)?"""
  if len(new) != len(old) - 1:
    return False
  i = 0
  while i < len(new) and old[i] == new[i]:
    i += 1
  return old[i + 1:] == new[i:]


@st.composite
def locking_case(draw):
  prefill = draw(st.sampled_from([0, 0, 1, 3, 497, 498, 499, 500, 500]))
  n = draw(st.integers(1, 14))
  ops = draw(st.lists(st.sampled_from(["append", "append", "appendleft", "appendleft", "consume",
                                       "consume_right", "clear", "len", "popleft", "pop", "wait_only", "wait_only",
                                       "finish", "finish"]),
                      min_size=n, max_size=n))
  return {"kind": "locking", "prefill": prefill, "ops": ops}


@st.composite
def queued_case(draw):
  cap = draw(st.sampled_from([500, 500, 4, 2, 1]))
  prefill = draw(st.sampled_from([0, 3, 497, 498, 499, 500, 500])) if cap == 500 else draw(st.integers(0, cap))
  n = draw(st.integers(1, 7))
  ops = draw(st.lists(st.sampled_from(["post_fifo", "post_fifo", "post_lifo", "post_lifo", "next_rtc"]),
                      min_size=n, max_size=n))
  return {"kind": "queued", "prefill": prefill, "ops": ops, "cap": cap}


LEAF = {"n": 1, "parent": [-1], "init": [None], "react": [{"VA": ["handle"]}], "sigs": ["VA"],
        "entry": [True], "exit": [True], "initc": [True], "spy": True, "acts": {}}


class C16(Prop):
  id = "C16"
  quick_examples = 1000
  thorough_examples = 3000
  rule = ("Two generated families. (a) queued charts (HsmWithQueues at its shipped capacity): "
          "pre-fill 0/3/497..500 events then up to 7 operations post_fifo/post_lifo/next_rtc; the "
          "queue content after every prefix is observed black-box by re-running the prefix on a "
          "fresh chart and draining it through complete_circuit. (b) LockingDeque (the active "
          "object's queue) with pre-fill 0/1/3/497..500 and up to 14 operations append, "
          "appendleft, consume (= wait(block=False)+popleft), consume_right (wait+pop), raw popleft/pop "
          "(taken straight out, leaving their token behind), finish (a consumer in flight reports its wake-up done), wait_only (a consumer in flight: token "
          "taken, event not yet popped), clear, len, with the token queue class substituted by a subclass that raises instead of "
          "blocking forever. Oracle: length <= capacity; below capacity a post adds exactly the "
          "new item at the back (fifo) / front (lifo); at capacity the new item is at the back / "
          "front and exactly one old item is displaced with the others keeping their order; "
          "tokens == pending after every step (>= pending once an item was taken out without its "
          "token); a post returns with at least one token per "
          "pending event even with consumers in flight; clear() never raises and leaves both at 0 "
          "whatever spare tokens existed; no "
          "operation would block. Non-trivial: the history contains an overflow post or a clear "
          "on an empty queue; distinct = distinct case digests.")
  assumptions = [
    "which old item an overflow displaces is left open (the statement does not say)",
    "LockingDeque contents are read with popleft()/len()/qsize() only, on a copy of the history",
    "blocking is detected by substituting miros.activeobject.Queue with a subclass of "
    "queue.Queue whose blocking put/get raise when they could never complete in a "
    "single-threaded run",
  ]

  def strategy(self, tier):
    return st.one_of(locking_case(), queued_case())

  # ---------------- (b) LockingDeque
  def make_ld(self):
    import miros.activeobject as ao
    saved = ao.Queue
    ao.Queue = strict_queue_class()
    try:
      return ao.LockingDeque()
    finally:
      ao.Queue = saved

  def run_locking(self, prefill, ops, upto):
    """Apply prefill + ops[:upto] to a fresh LockingDeque; return (drained ids, tokens, results)."""
    ld = self.make_ld()
    inflight_tokens = [0]
    nid = 0
    for _ in range(prefill):
      nid += 1
      ld.append(nid)
    results = []
    for op in ops[:upto]:
      if op == "append":
        nid += 1
        ld.append(nid)
        results.append(nid)
      elif op == "appendleft":
        nid += 1
        ld.appendleft(nid)
        results.append(nid)
      elif op == "consume":
        try:
          ld.wait(block=False)
        except stdqueue.Empty:
          results.append("empty")
        else:
          # as the active object's thread does: a token may outlive its event
          results.append(ld.popleft() if len(ld) >= 1 else "spare-token")
          ld.task_done()
      elif op == "consume_right":
        try:
          ld.wait(block=False)
        except stdqueue.Empty:
          results.append("empty")
        else:
          results.append(ld.pop() if len(ld) >= 1 else "spare-token")
          ld.task_done()
      elif op == "wait_only":
        # a consumer in flight: it has taken its wake-up token but not yet popped its event
        try:
          ld.wait(block=False)
          results.append("token")
          inflight_tokens[0] += 1
        except stdqueue.Empty:
          results.append("empty")
      elif op == "finish":
        # a consumer that took its wake-up token earlier (wait_only) reports the work done, as the
        # active object's thread does after every wake-up: never an error, whatever happened to the
        # queue in between (a clear(), for instance)
        if inflight_tokens[0] > 0:
          inflight_tokens[0] -= 1
          ld.task_done()
          results.append("finished")
        else:
          results.append("nobody")
      elif op in ("popleft", "pop"):
        # taken straight out, without first waiting for a wake-up token
        try:
          results.append(getattr(ld, op)())
        except IndexError:
          results.append("empty")
      elif op == "clear":
        ld.clear()
        results.append(None)
      elif op == "len":
        results.append((len(ld), ld.len()))
    tokens = ld.qsize()
    n = len(ld)
    content = [ld.popleft() for _ in range(n)]
    return content, tokens, results

  def check_locking(self, case, stats):
    prefill, ops = case["prefill"], case["ops"]
    nontrivial, classes = False, ["locking"]
    prev = None
    prev_tokens = None
    for upto in range(0, len(ops) + 1):
      where = "LockingDeque prefill=%d ops=%s" % (prefill, ops[:upto])
      try:
        content, tokens, results = self.run_locking(prefill, ops, upto)
      except WouldBlock as e:
        raise PropertyViolation("%s: %s would block forever" % (where, e), "C16:blocks")
      except Exception as e:
        b = "C16:clear-raises" if ops[:upto] and ops[upto - 1] == "clear" else "C16:raises"
        if self.violation(stats, "%s raised %s: %s" % (where, type(e).__name__, e), b) is False:
          return nontrivial, classes + ["stopped_at_known_finding"]
      if len(content) > CAP:
        raise PropertyViolation("%s: holds %d > capacity" % (where, len(content)), "C16:bound")
      raw = any(o in ("popleft", "pop") for o in ops[:upto])
      inflight = any(o == "wait_only" for o in ops[:upto])
      last_op = ops[upto - 1] if upto else None
      if last_op == "clear" and tokens != 0:
        raise PropertyViolation("%s: clear() left %d wake-up token(s) for an empty queue" % (where, tokens),
                                "C16:clear")
      if inflight:
        # tokens may trail the pending events by the consumers in flight, but a post must return
        # with at least one token per pending event
        if last_op in ("append", "appendleft") and tokens < len(content):
          raise PropertyViolation("%s: a post returned with %d wake-up tokens for %d pending events" % (
            where, tokens, len(content)), "C16:tokens")
      elif (tokens != len(content) and not raw) or tokens < len(content):
        # items taken out without their token leave spare tokens behind (harmless wake-ups);
        # there must never be fewer tokens than pending events
        raise PropertyViolation("%s: %d wake-up tokens for %d pending events" % (
          where, tokens, len(content)), "C16:tokens")
      if upto == 0:
        if content != list(range(1, len(content) + 1)) or len(content) != min(prefill, CAP):
          pass  # prefill itself overflowed only when prefill > CAP (never generated)
      else:
        op = ops[upto - 1]
        res = results[-1]
        if op in ("append", "appendleft"):
          full = len(prev) >= CAP
          back = op == "append"
          if full:
            nontrivial = True
            classes.append("overflow_" + op)
          end_ok = content and (content[-1] == res if back else content[0] == res)
          if not end_ok:
            msg = "%s: new item %s is not at the %s (%s...%s)" % (
              where, res, "back" if back else "front", content[:2], content[-2:])
            b = "C16:lifo-overflow-drops-new" if (full and not back) else "C16:placement"
            if self.violation(stats, msg, b) is False:
              return nontrivial, classes + ["stopped_at_known_finding"]
          rest = content[:-1] if back else content[1:]
          if not full and rest != prev:
            raise PropertyViolation("%s: other items changed: %s -> %s" % (where, prev[:5], rest[:5]),
                                    "C16:others")
          if full and not one_removed(prev, rest):
            raise PropertyViolation("%s: overflow did not displace exactly one old item" % where,
                                    "C16:overflow")
        elif op in ("popleft", "pop"):
          if not prev:
            if res != "empty" or content:
              raise PropertyViolation("%s: %s on empty queue gave %s" % (where, op, res), "C16:pop")
          else:
            exp = prev[0] if op == "popleft" else prev[-1]
            rest = prev[1:] if op == "popleft" else prev[:-1]
            if res != exp or content != rest:
              raise PropertyViolation("%s: %s gave %s, expected %s" % (where, op, res, exp), "C16:pop")
          classes.append("raw_pop")
        elif op in ("consume", "consume_right"):
          if prev_tokens == 0:
            # every wake-up token is in the hands of a consumer in flight: this consumer finds none
            # and takes nothing, the pending items belong to the consumers that hold the tokens
            if res != "empty" or content != prev:
              raise PropertyViolation("%s: with no wake-up token left a consumer got %s (content %s -> %s)" % (
                where, res, prev[:3], content[:3]), "C16:consume")
          elif not prev:
            if res not in ("empty", "spare-token") or content:
              raise PropertyViolation("%s: consume on empty queue gave %s" % (where, res), "C16:consume")
          else:
            exp = prev[0] if op == "consume" else prev[-1]
            rest = prev[1:] if op == "consume" else prev[:-1]
            if res != exp or content != rest:
              raise PropertyViolation("%s: consumed %s, expected %s" % (where, res, exp), "C16:consume")
        elif op == "finish":
          if content != prev:
            raise PropertyViolation("%s: reporting a wake-up as done changed the queue content" % where, "C16:wait")
        elif op == "wait_only":
          if content != prev:
            raise PropertyViolation("%s: taking a token changed the queue content" % where, "C16:wait")
          classes.append("consumer_in_flight")
        elif op == "clear":
          if not prev:
            nontrivial = True
            classes.append("clear_on_empty")
          if content:
            raise PropertyViolation("%s: clear left %d items" % (where, len(content)), "C16:clear")
        elif op == "len":
          if res != (len(prev), len(prev)) or content != prev:
            raise PropertyViolation("%s: len gave %s for %d items" % (where, res, len(prev)), "C16:len")
      prev = content
      prev_tokens = tokens
    return nontrivial, classes

  # ---------------- (a) queued charts
  def run_queued(self, prefill, ops, upto, cap=CAP):
    from miros.event import Event, signals
    from miros.hsm import HsmWithQueues
    rt = chartgen.build(LEAF, decorate=True)
    if cap == CAP:
      chart = hsmcheck.make_host("queued")
    else:
      # a chart class that declares its own (smaller) capacity
      small = type("VfSmallChart", (chartgen.bounded(HsmWithQueues),), {"QUEUE_SIZE": cap})
      chart = small()
    chart.start_at(rt.fns[0])
    steps = []
    real_dispatch = chart.dispatch

    def dispatch(e):
      steps.append(e.payload)
      return real_dispatch(e)
    chart.dispatch = dispatch
    nid = 0
    sig = signals["VA"]
    results = []
    for _ in range(prefill):
      nid += 1
      chart.post_fifo(Event(signal=sig, payload=nid))
    for op in ops[:upto]:
      if op in ("post_fifo", "post_lifo"):
        nid += 1
        getattr(chart, op)(Event(signal=sig, payload=nid))
        results.append(nid)
      else:
        del steps[:]
        chart.next_rtc()
        results.append(list(steps))
    del steps[:]
    chart.complete_circuit()
    return list(steps), results

  def check_queued(self, case, stats):
    prefill, ops = case["prefill"], case["ops"]
    cap = case.get("cap", CAP)
    nontrivial, classes = False, ["queued", "queued_cap_%d" % cap]
    prev = None
    for upto in range(0, len(ops) + 1):
      where = "HsmWithQueues(QUEUE_SIZE=%d) prefill=%d ops=%s" % (cap, prefill, ops[:upto])
      try:
        content, results = self.run_queued(prefill, ops, upto, cap)
      except HarnessBound as e:
        raise PropertyViolation("%s did not terminate" % where, "C16:hang")
      except Exception as e:
        raise PropertyViolation("%s raised %s: %s" % (where, type(e).__name__, e), "C16:raises")
      if len(content) > cap:
        raise PropertyViolation("%s: holds %d > capacity" % (where, len(content)), "C16:bound")
      if upto > 0:
        op, res = ops[upto - 1], results[-1]
        if op in ("post_fifo", "post_lifo"):
          full = len(prev) >= cap
          back = op == "post_fifo"
          if full:
            nontrivial = True
            classes.append("overflow_" + op)
          if not content or (content[-1] if back else content[0]) != res:
            raise PropertyViolation("%s: new event %s is not at the %s" % (
              where, res, "back" if back else "front"), "C16:placement")
          rest = content[:-1] if back else content[1:]
          if (not full and rest != prev) or (full and not one_removed(prev, rest)):
            raise PropertyViolation("%s: other events changed" % where, "C16:others")
        else:
          exp = prev[:1]
          if res != exp or content != prev[1:]:
            raise PropertyViolation("%s: next_rtc dispatched %s, front was %s" % (where, res, exp),
                                    "C16:next_rtc")
      prev = content
    return nontrivial, classes

  def check(self, case, stats):
    if case["kind"] == "locking":
      nontrivial, classes = self.check_locking(case, stats)
    else:
      nontrivial, classes = self.check_queued(case, stats)
    stats.case(case, nontrivial, classes)


PROP = C16
