"""C28 - every statement using a thread-safe attribute releases its lock."""
import os
import sys
import shutil
import tempfile
import threading
import linecache
from hypothesis import strategies as st

from ..run import Prop
from ..common import PropertyViolation, WORK_DIR

AUG = ["+=", "-=", "*=", "//=", "%=", "**=", "<<=", ">>=", "&=", "|=", "^="]
CMP = ["==", "!=", "<", "<=", ">", ">="]

# statement templates; {c} comparison operator, {a} augmented operator, {k} small int
READS = ["v = o.x", "v = o.x + {k}", "v = (o.x, o.x)", "v = [o.x for _ in range(2)]", "v = str(o.x)",
         "v = o.x if o.x else {k}", "v = dict(a=o.x)", "v = max(o.x, {k})", "v: int = o.x",
         "v = w[o.x:]", "v = (lambda a=o.x: a)()", "v = '+=' + str(o.x)", "v = {{'a': o.x}}",
         "v = o.x; w2 = {k}", "v = -o.x", "v = not o.x", "v = o . x"]
COMPARES = ["v = o.x {c} {k}", "v = {k} {c} o.x", "assert o.x {c} {k} or True", "v = o.x {c} o.x",
            "if o.x {c} {k}: v = 0", "v = [i for i in range(3) if i {c} o.x]", "while o.x {c} -99 and False: pass",
            "v = {k} if o.x {c} {k} else 0"]
ASSIGNS = ["o.x = {k}", "o.x = v + {k}", "o.x = o.x + {k}", "o.x = o.x", "o.x = v = {k}", "o.x, v = {k}, {k}",
           "o.x = o2.x", "o.x, o2.x = o2.x, o.x"]
# the right-hand side may read the attribute again, of the same or of another instance of the class
# (p is an instance of ANOTHER class that declares a thread-safe attribute of the same name)
AUG_SELF = ["o.x {a} {k}", "o.x {a} v", "o . x {a} {k}", "o.x{a}{k}", "o.x {a} o.x", "o.x {a} o2.x",
            "o.x {a} o.x + {k}", "o.x {a} max(o.x, {k})", "o.x {a} p.x", "p.x {a} o.x", "o.x {a} h.x",
            # the line reads the attribute once more, before or after the assignment
            "if o.x > -99: o.x {a} {k}", "o.x {a} {k}; v = o.x", "v = o.x; o.x {a} {k}",
            # one statement written over two lines
            "o.x \\\n    {a} {k}", "o.x {a} (\n    {k})", "(o\n  .x) {a} {k}",
            # the right-hand side calls a helper that makes an augmented assignment of its own to
            # the attribute (of the same object, of another instance)
            "o.x {a} bump(o)", "o.x {a} bump(o2)", "o.x {a} bump(o) + bump(o2)", "v = bump(o)"]
# the attribute looked up on the class instead of an instance
CLASSREAD = ["v = K.x", "v = getattr(K, 'x')", "v = hasattr(K, 'x')", "v = type(o).x", "v = K.x {c} {k}",
             "v = [n for n in dir(K) if getattr(K, n, None) is None]"]
# (h is a plain object; its ordinary attribute x merely has the same name)
AUG_OTHER = ["v {a} o.x", "w[0] {a} o.x", "h.n {a} o.x", "v {a} o.x + {k}", "h.x {a} o.x", "h.x {a} o.x + p.x",
             "h.x {a} getattr(o, 'x')"]
LOCKFORM = ["_, _lock = o.x", "_, _lock  = o.x", "_, _lock = o.x\nwith _lock:\n  o.x = {k}",
            "_, _lock = o.x\nwith _lock:\n  o.x {a} {k}\n  v = o.x {c} {k}",
            "_, _lock = o.x\nwith _lock:\n  v {a} o.x"]
COMMENTS = ["v = o.x  # total {a} 1", "v = o.x  # a {c} b", "o.x = {k}  # was: o.x {a} 1", "v = o.x # _, _lock = o.x"]

# the attribute holds a container: statements on its items never assign to the attribute itself
ITEMS = ["o.x[0] {a} {k}", "o.x[0] = {k}", "v = o.x[0]", "o.x[-1] {a} v", "o.x[0], v = v, {k}",
         "v = o.x[0] {c} {k}", "o.x.append({k})", "v {a} o.x[0]", "o.x [0] {a} {k}"]

# code without source lines (exec, eval - and with them the interactive prompt and python -c)
NOSOURCE = ["exec('v = o.x', {{'o': o}})", "v = eval('o.x', {{'o': o}})", "exec('o.x {a} {k}', {{'o': o}})",
            "exec('o.x = {k}', {{'o': o}})", "v = eval('o.x {c} {k}', {{'o': o}})",
            "exec('h.x {a} o.x', {{'o': o, 'h': h}})"]

# statements that end in an exception (the harness catches it): they have finished all the same
RAISES_OTHER = ["v = o.x // 0", "v = w[o.x + 99]", "o.x = {k} // 0", "v {a} o.x // 0", "v = o.x {c} w[99]",
                "o.x = w[99]", "v = int('x') + o.x"]
# ... among them augmented assignments to the attribute whose right-hand side raises
RAISES_AUG = ["o.x {a} {k} // 0", "o.x {a} w[99]", "o.x {a} o.x // 0", "o.x {a} int('x')"]

FAMILIES = {"raises_other": RAISES_OTHER, "raises_aug": RAISES_AUG, "nosource": NOSOURCE, "item": ITEMS, "read": READS, "compare": COMPARES, "assign": ASSIGNS, "aug_self": AUG_SELF,
            "aug_other": AUG_OTHER, "lockform": LOCKFORM, "comment": COMMENTS, "classread": CLASSREAD}


@st.composite
def statement(draw):
  fam = draw(st.sampled_from(sorted(FAMILIES)))
  tmpl = draw(st.sampled_from(FAMILIES[fam]))
  a = draw(st.sampled_from(AUG))
  if "**=" == a and "{k}" in tmpl:
    k = draw(st.integers(0, 2))
  else:
    k = draw(st.integers(1, 3))
  if a in ("<<=", ">>=", "**=") and fam == "aug_other":
    a = draw(st.sampled_from(["+=", "-=", "*=", "|=", "&=", "^="]))
  return {"family": fam, "stmt": tmpl.format(c=draw(st.sampled_from(CMP)), a=a, k=k),
          "initial": draw(st.integers(1, 3)),
          "big": draw(st.integers(0, 3)) == 0}      # the function refers to 140 other names first


class CountingRLock:
  created = []

  def __init__(self):
    self._l = threading.RLock()
    self.depth = 0
    CountingRLock.created.append(self)

  def acquire(self, blocking=True, timeout=-1):
    r = self._l.acquire(blocking, timeout)
    if r:
      self.depth += 1
    return r

  def release(self):
    self._l.release()
    self.depth -= 1

  __enter__ = acquire

  def __exit__(self, *a):
    self.release()


class C28(Prop):
  id = "C28"
  quick_examples = 700
  thorough_examples = 4000
  rule = ("Hypothesis picks one statement from a grammar of single Python statements that use a "
          "thread-safe attribute o.x: reads inside expressions (arithmetic, tuples, comprehensions, "
          "calls, keyword arguments, slices, lambdas defaults, annotations, string literals "
          "containing '+='), comparisons with every operator (== != < <= > >=) in assignments, "
          "asserts, if/while one-liners, conditional expressions and comprehension filters, plain "
          "assignments (including o.x = o.x + k), augmented assignments to the attribute with every "
          "integer operator (+= -= *= //= %= **= <<= >>= &= |= ^=), augmented assignments to ANOTHER "
          "variable/subscript/attribute whose right side reads o.x, the documented '_, _lock = o.x' "
          "form alone and followed by a 'with _lock:' block that uses the attribute, trailing comments that mention operators, and statements on the ITEMS "
          "of an attribute that holds a list (o.x[0] += k, o.x[0] = k, o.x.append(k), ...), augmented "
          "assignments whose right side reads the attribute again (o.x += o.x, o.x += o2.x for a second "
          "instance of the class, o.x += p.x / p.x += o.x for an instance p of another class that declares an "
          "attribute of the same name, h.x += o.x for a plain object h whose ordinary attribute has that name), "
          "lines that read the attribute a second time before or after the assignment, right-hand sides that call a helper which itself makes an augmented assignment to the attribute (nested), "
          "the same kinds of statement run through exec()/eval() (code without source lines, as at the interactive prompt), "
          "and reads of the attribute through the class (K.x, getattr(K, 'x'), dir), and statements that end in an exception "
          "(a read inside an expression that raises, an assignment or augmented assignment whose right-hand side raises; the harness catches the exception). The "
          "statement is written to a real source file (miros inspects the caller's source line), "
          "compiled and executed once by the calling thread; every statement is also run inside a function that refers to 140 other names first (extended bytecode arguments). Oracle: afterwards the attribute's lock "
          "(threading.RLock substituted in miros.thread_safe_attributes by a depth-counting "
          "wrapper) is held zero times, and a second real thread can acquire it without blocking. "
          "Non-trivial: the statement contains a comparison or an augmented assignment that does "
          "not target the attribute itself; distinct = distinct statement texts.")
  assumptions = [
    "lock ownership is observed through a counting wrapper substituted for threading.RLock in "
    "miros.thread_safe_attributes before the class is created",
    "statements are one or two source lines long",
  ]

  def strategy(self, tier):
    return statement()

  def extra(self, tier, seed, shard, nshards, stats):
    """The grammar is finite: enumerate every statement text it can produce."""
    seen = set()
    idx = 0
    for fam in sorted(FAMILIES):
      for tmpl in FAMILIES[fam]:
        for c in CMP:
          for a in AUG:
            for k in (1, 2, 3):
              if a in ("<<=", ">>=", "**=") and fam == "aug_other":
                continue
              text = tmpl.format(c=c, a=a, k=k)
              if text in seen:
                continue
              seen.add(text)
              idx += 1
              if idx % nshards != shard:
                continue
              for big in (False, True):
                case = {"family": fam, "stmt": text, "initial": 2, "big": big}
                try:
                  self.check(case, stats)
                except PropertyViolation as v:
                  yield case, v
                  return
    stats.classes["grammar_enumerated_completely"] = len(seen)

  def check(self, case, stats):
    import miros.thread_safe_attributes as tsa
    import miros
    stmt = case["stmt"]
    nontrivial = case["family"] in ("compare", "aug_other", "comment", "item")
    stats.case({"stmt": stmt, "big": bool(case.get("big"))}, nontrivial,
               ["family_" + case["family"]] + (["big_function"] if case.get("big") else []))
    saved = tsa.RLock
    tsa.RLock = CountingRLock
    del CountingRLock.created[:]
    d = tempfile.mkdtemp(prefix="vf_c28_")
    try:
      klass = type("VfStmtHolder", (miros.ThreadSafeAttributes,), {"_attributes": ["x"]})
      locks = list(CountingRLock.created)
      if len(locks) != 1:
        raise PropertyViolation("expected one lock for one attribute, found %d" % len(locks), "C28:harness")
      other = type("VfOtherHolder", (miros.ThreadSafeAttributes,), {"_attributes": ["x"]})
      locks = list(CountingRLock.created)
      p_ = other()
      p_.x = [case["initial"], 1, 2] if case["family"] == "item" else case["initial"]
      o = klass()
      o2 = klass()
      o.x = [case["initial"], 1, 2] if case["family"] == "item" else case["initial"]
      o2.x = [case["initial"], 1, 2] if case["family"] == "item" else case["initial"]
      path = os.path.join(d, "vf_stmt_case.py")
      body = "\n".join("  " + l for l in stmt.split("\n"))
      pre = ""
      if case.get("big"):
        # more than 128 names ahead of the attribute's: its bytecode argument needs an extension
        pre = "  if w is None:\n    (%s)\n" % ", ".join("vf_n%d" % i for i in range(140))
      src = "def bump(q):\n  q.x += 1\n  return 1\n\ndef run(o, v, w, h, o2, K, p):\n%s%s\n  return None\n" % (pre, body)
      with open(path, "w") as f:
        f.write(src)
      linecache.checkcache(path)
      ns = {}
      exec(compile(src, path, "exec"), ns)

      class H:
        n = 1
        x = 1
      raising = case["family"].startswith("raises")
      try:
        ns["run"](o, 1, [1, 2, 3], H(), o2, klass, p_)
        if raising:
          raise PropertyViolation("statement %r was expected to raise" % stmt, "C28:harness")
      except PropertyViolation:
        raise
      except (ZeroDivisionError, IndexError, ValueError) as e:
        if not raising:
          raise PropertyViolation("statement %r raised %s: %s" % (stmt, type(e).__name__, e), "C28:raised")
      except Exception as e:
        raise PropertyViolation("statement %r raised %s: %s" % (stmt, type(e).__name__, e), "C28:raised")
      held = sum(l.depth for l in locks)
      got = []

      def probe():
        ok = True
        for l in locks:
          if l._l.acquire(False):
            l._l.release()
          else:
            ok = False
        got.append(ok)
      t = threading.Thread(target=probe)
      t.start()
      t.join()
      if held != 0 or got != [True]:
        b = {"compare": "C28:comparison-keeps-lock", "aug_other": "C28:augassign-other-target",
             "comment": "C28:operator-in-comment",
             "raises_aug": "C28:raising-right-hand-side-keeps-lock"}.get(case["family"], "C28:keeps-lock")
        self.violation(stats, "after %r the calling thread still holds an attribute's lock "
                       "(depth %d; another thread can%s acquire it)" % (
                         stmt, held, "" if got == [True] else "not"), b)
    finally:
      tsa.RLock = saved
      linecache.clearcache()
      shutil.rmtree(d, ignore_errors=True)


PROP = C28
