"""C05 - posting to an active object always returns; the system reaches quiescence."""
from hypothesis import strategies as st

from ..run import Prop
from ..common import PropertyViolation
from .c04 import post_case, run_post_case


class C05(Prop):
  id = "C05"
  quick_examples = 400
  thorough_examples = 3000
  rule = ("Generated schedules under the deterministic scheduler (pre-emption at every source line "
          "of miros/activeobject.py and miros/hsm.py and at every virtual primitive operation): a "
          "running ActiveObject, 1-3 poster threads plus the body thread posting fifo/lifo events, "
          "optionally 1 or 497..500 events queued before start_at so that the bounded token queue "
          "is reached (one heavy case in ten on a subclass declaring QUEUE_SIZE 600 with 501/540 events waiting), optionally long bursts of 15-40 posts per poster that overlap the object's "
          "steps, optionally with live spy/trace output switched on, optionally a state that empties the object's own queue (chart.queue.clear()) while the posters post; the generated schedule prefix is followed by fair round-robin; a regular family runs three small scenarios under 240 periodic schedules each (thread i mod k runs q lines, q = 1..60, k = 2..5). Oracle: the "
          "exact deadlock detector (every thread blocked, no timer pending) never fires, the step "
          "bound (400k scheduling steps, >100x the longest passing run) is never reached under the "
          "fair suffix, and at quiescence every poster has finished and the consumer is blocked "
          "waiting on an empty queue. Non-trivial: >=2 posting threads and >=1 context switch taken "
          "while a poster was inside a post; distinct = distinct (scenario, schedule) digests.")
  assumptions = [
    "liveness is decided as: no deadlock, and termination within the step bound under a fair "
    "round-robin suffix (a bound hit is reported as non-termination)",
    "virtual primitives stand in for threading/queue; line-granularity pre-emption",
  ]

  def strategy(self, tier):
    return post_case(heavy=True)

  def extra(self, tier, seed, shard, nshards, stats):
    """A regular family for the narrowest windows between a poster and the consumer (the consumer
    has just taken the LAST event when the next one arrives): small scenarios under periodic
    schedules - thread i mod k runs q lines, for every q in 1..60 and k in 2..5."""
    idx = 0
    for posters in ([["fifo", "fifo"], ["fifo"]], [["lifo", "fifo"], ["fifo", "lifo"]], [["fifo"], ["fifo"], ["lifo"]]):
      for k in (2, 3, 4, 5):
        for q in range(1, 61):
          idx += 1
          if idx % nshards != shard:
            continue
          case = {"posters": posters, "body": ["fifo"], "prefill": [], "handler": {}, "heavy": 0,
                  "subscribe": "none", "publishes": 0, "timer": None, "live": False,
                  "schedule": [[i % k, q] for i in range(200)]}
          try:
            self.check(case, stats)
          except PropertyViolation as v:
            yield case, v
            return
    stats.classes["periodic_schedule_family"] = idx

  def check(self, case, stats):
    out = run_post_case(case)
    s = out["sched"]
    nposters = len(case["posters"]) + (1 if case["body"] else 0)
    stats.case(case, nposters >= 2 and out["switch_inside_post"] >= 1,
               ["heavy_%s" % case.get("heavy", 0), "posters_%d" % len(case["posters"]),
                "steps_le_%d" % (10 ** len(str(s.steps)))] + (["state_clears_its_queue"] if case.get("clears") else []))
    if out["failure"]:
      kind, msg = out["failure"]
      raise PropertyViolation("%s after %d steps: %s" % (kind, s.steps, msg), "C05:" + kind)
    if s.thread_errors:
      name, e, tb = s.thread_errors[0]
      raise PropertyViolation("thread %s died: %s: %s" % (name, type(e).__name__, e), "C05:thread-error")
    if not out["posters_done"] or out["final_len"] != 0 or out["ao_state"] != "Queue.get(empty)":
      raise PropertyViolation("no quiescence: posters done %s, queue length %s, consumer %s" % (
        out["posters_done"], out["final_len"], out["ao_state"]), "C05:quiescence")


PROP = C05
