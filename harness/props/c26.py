"""C26 - Event.dumps/Event.loads round-trip name and payload."""
import json
from hypothesis import strategies as st

from ..run import Prop
from ..common import PropertyViolation

# text that is itself JSON (a pre-serialised payload, a forwarded message) is still just text
_inner = st.recursive(st.one_of(st.none(), st.booleans(), st.integers(-9, 99), st.text(max_size=4)),
                      lambda ch: st.one_of(st.lists(ch, max_size=3),
                                           st.dictionaries(st.sampled_from(["a", "b", "signal_name", "payload"]),
                                                           ch, max_size=3)), max_leaves=5)
jsonish_text = st.one_of(_inner.map(json.dumps),
                         st.sampled_from(["{}", "[]", "null", "true", "42", "1e5", '""', "{", "[1,", '{"a": 1}x', " [1] "]))

json_payload = st.recursive(
  st.one_of(st.none(), st.booleans(), st.integers(), st.floats(allow_nan=False, allow_infinity=False),
            st.text(), jsonish_text),
  # keys include the ones the wire format itself uses: a payload may carry a forwarded event record
  lambda ch: st.one_of(st.lists(ch, max_size=4),
                       st.dictionaries(st.one_of(st.text(max_size=6),
                                                 st.sampled_from(["signal_name", "payload", "signal"])),
                                       ch, max_size=4)),
  max_leaves=12)


def depth(x):
  if isinstance(x, list):
    return 1 + max([depth(i) for i in x] or [0])
  if isinstance(x, dict):
    return 1 + max([depth(i) for i in x.values()] or [0])
  return 0


def same(a, b):
  """Equality that also distinguishes bool/int/float and None (1 == True in Python)."""
  if type(a) != type(b):
    return False
  if isinstance(a, list):
    return len(a) == len(b) and all(same(x, y) for x, y in zip(a, b))
  if isinstance(a, dict):
    return a.keys() == b.keys() and all(same(a[k], b[k]) for k in a)
  return a == b


class C26(Prop):
  id = "C26"
  quick_examples = 2000
  thorough_examples = 20000
  rule = ("Hypothesis st.text() signal names (any Unicode except surrogates, including the empty "
          "string and names of built-in signals) x recursive JSON-representable payloads (None, "
          "booleans, arbitrary-size integers, finite floats, text - including text that is itself JSON such as "
          "'{\"a\": 1}', '[]' or 'null' -, lists, string-keyed dicts whose keys include 'signal_name' and "
          "'payload' themselves; up to 12 leaves), sent through Event.dumps then Event.loads; a third of the cases instead "
          "build the JSON text by hand (as a foreign process would) for a name that may be new. "
          "Oracle (round-trip): same signal name, payload equal with identical JSON types, signal "
          "number equal to the number this process binds to that name (unchanged for known names, "
          "newly registered for new ones), and the binding of every other name unchanged; the same text "
          "decoded a second time, after the first decoded event's payload was modified in place, gives the "
          "original payload again; an event sent a second time after its payload was changed in place arrives with the "
          "changed payload. Names include the characters JSON must escape (quotes, backslashes, control characters) and "
          "format-string look-alikes. "
          "One case in eight runs 2-3 threads that each send their own event through dumps/loads 1-3 times under the deterministic scheduler "
          "(pre-emption at every bytecode of miros/event.py): every thread gets its own name and payload back. "
          "Non-trivial: payload nesting depth >= 2, or a non-ASCII name, or a name first registered "
          "by loads; distinct = distinct (name, payload) digests.")
  assumptions = ["tuples are not generated (JSON has no tuple)", "NaN/inf are excluded by the statement"]

  def strategy(self, tier):
    # names that are also attribute names of the registry object are ordinary signal names
    names = st.one_of(st.text(max_size=12), st.sampled_from(["ENTRY_SIGNAL", "INIT_SIGNAL", "VA", "VB"]),
                      st.sampled_from(["items", "keys", "values", "pop", "get", "update", "clear", "copy", "append",
                                       "highest_inner_signal", "is_inner_signal", "name_for_signal", "__dict__",
                                       "__class__", "move_to_end", "popitem", "setdefault", "fromkeys"]),
                      st.text(alphabet="ABCDEFGHIJ_", min_size=1, max_size=8),
                      # characters JSON has to escape
                      st.text(alphabet='"\\/\n\t\r\b\f\x00\x1f ab\u2028\'', min_size=1, max_size=6),
                      st.sampled_from(['a"b', 'back\\slash', 'tab\\there', 'new\nline', '\\', '"', '\\"', '\\u0041',
                                       '%s', '{}', '{0}', '%(x)s']))
    # (a bare signal - no payload at all - is the most common event there is)
    single = st.fixed_dictionaries({"name": names, "payload": st.one_of(st.none(), jsonish_text, json_payload, json_payload, json_payload),
                                    "foreign": st.integers(0, 2).map(lambda i: i == 0)})
    # several threads encode and decode their own events at the same time (a bridge that serialises
    # from more than one active object): every thread gets its own event back
    small = st.recursive(st.one_of(st.none(), st.booleans(), st.integers(-99, 99), st.text(max_size=5)),
                         lambda ch: st.one_of(st.lists(ch, max_size=3), st.dictionaries(st.text(max_size=3), ch, max_size=3)),
                         max_leaves=5)
    together = st.fixed_dictionaries({
      "threads": st.lists(st.tuples(st.sampled_from(["VA", "VB", "VC", "ENTRY_SIGNAL", "vf_c26_x", "vf_c26_y"]), small,
                                    st.integers(1, 3)).map(list), min_size=2, max_size=3),
      "schedule": st.lists(st.tuples(st.integers(0, 4), st.integers(1, 12)).map(list), max_size=150)})
    return st.one_of(single, single, single, single, single, single, single, together)

  def check_together(self, case, stats):
    from .. import detsched
    ao = detsched.install()
    detsched.reset(ao)
    from miros.event import Event, signals
    files = detsched.miros_files()
    out = {}

    def body(s):
      def worker(k, name, payload, rounds):
        for r in range(rounds):
          e2 = Event.loads(Event.dumps(Event(signal=name, payload=payload)))
          out[(k, r)] = (e2.signal_name, e2.payload, e2.signal)
      ths = [ao.Thread(target=worker, args=(k, t[0], t[1], t[2]), name="w%d" % k) for k, t in enumerate(case["threads"])]
      for t in ths:
        t.start()
      for t in ths:
        t.join()
    s = detsched.Scheduler(schedule=case["schedule"], step_limit=600000, opcodes=True, trace_files=[files["event"]])
    try:
      detsched.guarded_run(s, body)
    except (detsched.Deadlock, detsched.StepLimit) as e:
      raise PropertyViolation("threads that encode and decode events did not finish: %s" % e, "C26:liveness")
    distinct = len(set(json.dumps(t[:2], sort_keys=True) for t in case["threads"])) >= 2
    stats.case(case, distinct, ["threads_%d" % len(case["threads"])])
    if s.thread_errors:
      name, e, tb = s.thread_errors[0]
      raise PropertyViolation("thread %s: raised %s: %s" % (name, type(e).__name__, e), "C26:raised")
    for k, t in enumerate(case["threads"]):
      for r in range(t[2]):
        got = out.get((k, r))
        if got is None or got[0] != t[0] or not same(got[1], t[1]) or got[2] != signals[t[0]]:
          raise PropertyViolation("thread %d sent name %r payload %r through dumps/loads while %d other thread(s) did the "
                                  "same with their own events: it got back %r" % (k, t[0], t[1], len(case["threads"]) - 1, got),
                                  "C26:payload")

  def check(self, case, stats):
    if "threads" in case:
      return self.check_together(case, stats)
    from miros.event import Event, signals
    name, payload = case["name"], case["payload"]
    before = dict(signals)
    known = name in before
    try:
      if case["foreign"]:
        text = json.dumps({"payload": payload, "signal_name": name})
        e = None
      else:
        e = Event(signal=name, payload=payload)
        text = Event.dumps(e)
      e2 = Event.loads(text)
    except Exception as ex:
      raise PropertyViolation("name %r payload %r: raised %s: %s" % (name, payload, type(ex).__name__, ex),
                              "C26:raised")
    newly = (not known)
    stats.case({"name": name, "payload": payload}, depth(payload) >= 2 or not name.isascii() or
               (newly and case["foreign"]),
               ["foreign" if case["foreign"] else "dumps", "known_name" if known else "new_name",
                "depth_%d" % min(depth(payload), 4)])
    if e2.signal_name != name:
      raise PropertyViolation("name %r came back as %r" % (name, e2.signal_name), "C26:name")
    if not same(e2.payload, payload):
      raise PropertyViolation("payload %r came back as %r" % (payload, e2.payload), "C26:payload")
    if name not in signals or e2.signal != signals[name]:
      raise PropertyViolation("name %r: loads gave number %r, registry says %r" % (
        name, e2.signal, signals.get(name)), "C26:number")
    if known and signals[name] != before[name]:
      raise PropertyViolation("name %r was rebound from %r to %r" % (name, before[name], signals[name]),
                              "C26:rebound")
    if e is not None and e.signal != e2.signal:
      raise PropertyViolation("name %r: number %r before, %r after the round trip" % (
        name, e.signal, e2.signal), "C26:number")
    # every decode builds its own event: changing one decoded event does not change what the
    # same text decodes to next time
    try:
      if isinstance(e2.payload, list):
        e2.payload.append("vf-mutated")
      elif isinstance(e2.payload, dict):
        e2.payload["vf-mutated"] = 1
      else:
        e2.payload = "vf-mutated"
      e3 = Event.loads(text)
    except Exception as ex:
      raise PropertyViolation("name %r payload %r: second decode raised %s: %s" % (
        name, payload, type(ex).__name__, ex), "C26:raised")
    if e3 is e2 or e3.signal_name != name or not same(e3.payload, payload) or e3.signal != signals[name]:
      raise PropertyViolation("name %r payload %r: decoding the same text again, after the first decoded "
                              "event was modified, gave name %r payload %r" % (
                                name, payload, e3.signal_name, e3.payload), "C26:payload")
    # an event that is sent again after its payload was changed in place carries the new payload
    if e is not None and isinstance(e.payload, (list, dict)):
      try:
        if isinstance(e.payload, list):
          e.payload.append("vf-added")
        else:
          e.payload["vf-added"] = [1]
        e4 = Event.loads(Event.dumps(e))
      except Exception as ex:
        raise PropertyViolation("name %r: sending the event again after changing its payload raised %s: %s" % (
          name, type(ex).__name__, ex), "C26:raised")
      if not same(e4.payload, e.payload) or e4.signal_name != name:
        raise PropertyViolation("name %r: the event was sent again after its payload was changed in place to %r, "
                                "it arrived with %r" % (name, e.payload, e4.payload), "C26:payload")
    for k, v in before.items():
      if signals.get(k) != v:
        raise PropertyViolation("loading %r changed the binding of %r: %r -> %r" % (
          name, k, v, signals.get(k)), "C26:others")
    if len(signals) != len(before) + (0 if known else 1):
      raise PropertyViolation("loading %r changed the registry size by %d" % (
        name, len(signals) - len(before)), "C26:others")


PROP = C26
