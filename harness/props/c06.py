"""C06 - the fabric delivers each publication once to every subscriber and to no one else."""
from collections import deque
from hypothesis import strategies as st

from ..run import Prop
from ..common import PropertyViolation, HarnessBound
from .. import detsched
from .c04 import schedule_st

SIGS = ["VA", "VB", "VC"]


@st.composite
def fabric_history(draw):
  nq = draw(st.integers(1, 4))
  queues = [draw(st.sampled_from(["deque", "deque", "deque", "locking", "recorder"])) for _ in range(nq)]
  n = draw(st.integers(1, 14))
  sigs = SIGS[:draw(st.sampled_from([1, 1, 2, 3]))]
  kinds = draw(st.sampled_from([["fifo"], ["lifo"], ["fifo", "fifo", "lifo", None]]))
  ops = []
  for _ in range(n):
    k = draw(st.sampled_from(["subscribe", "subscribe", "subscribe", "publish", "publish", "settle", "touch"]))
    if k == "subscribe":
      ops.append(["subscribe", draw(st.integers(0, nq - 1)), draw(st.sampled_from(sigs)),
                  draw(st.sampled_from(kinds)),
                  draw(st.sampled_from(["event", "number"]))])
    elif k == "publish":
      ops.append(["publish", draw(st.sampled_from(sigs))])
    elif k == "touch":
      ops.append(["touch", draw(st.integers(0, nq - 1))])
    else:
      ops.append(["settle"])
  ops.append(["settle"])
  return {"queues": queues, "ops": ops, "schedule": [list(x) for x in draw(schedule_st)]}


class Recorder:
  """A subscriber that only records what the fabric appends to it."""

  def __init__(self):
    self.items = []

  def append(self, e):
    self.items.append(e)


class C06(Prop):
  id = "C06"
  quick_examples = 1500
  thorough_examples = 6000
  rule = ("Generated histories against the real ActiveFabric under the deterministic scheduler "
          "(delivery threads pre-empted at every line of miros/activeobject.py; generated schedule "
          "then fair round-robin): 1-4 subscriber queues (plain bounded deques - several of them "
          "empty and therefore equal by content -, LockingDeques, harness recorders), up to 14 "
          "operations from subscribe(queue, signal as Event or number, fifo/lifo/default), "
          "publish(signal), touch (append a foreign item to a queue so that contents differ) and "
          "settle (wait until every thread is blocked). Model: registry (kind, signal) -> set of "
          "queue IDENTITIES. Oracle at every settle: each queue received, since the previous "
          "settle, exactly one copy per subscription kind of every publication made while it was "
          "subscribed; publications that overlap a not-yet-settled subscription may be delivered 0 "
          "or 1 times per kind; queues never subscribed to a signal receive none of it. "
          "Non-trivial: >=2 distinct queues with equal contents subscribed to one signal and >=1 "
          "re-subscription of one of them before a publication; distinct = distinct case digests.")
  assumptions = [
    "queue contents are read only at settle points (all threads blocked)",
    "the fabric is started before the first operation and never stopped or cleared (C13 covers that)",
  ]

  def strategy(self, tier):
    return fabric_history()

  def check(self, case, stats):
    ao = detsched.install()
    detsched.reset(ao)
    from miros.event import Event, signals
    files = detsched.miros_files()
    for s_ in SIGS:
      signals.append(s_)
    result = {}

    def body(s):
      af = ao.ActiveFabric()
      af.start()
      queues = []
      for kind in case["queues"]:
        if kind == "deque":
          queues.append(deque(maxlen=50))
        elif kind == "locking":
          queues.append(ao.LockingDeque())
        else:
          queues.append(Recorder())
      subs = {}            # (kind, sig) -> list of queue indices, settled
      fresh = {}           # (kind, sig, q) -> subscriptions made since the last settle
      pending = []         # publications since last settle: (id, sig, must: set((kind,q)), may: set)
      nid = [0]
      seen_equal_pair = False
      resub_before_pub = False
      classes = []

      def content(q):
        if isinstance(q, deque):
          return list(q)
        if isinstance(q, Recorder):
          return list(q.items)
        n = len(q)
        items = [q.popleft() for _ in range(n)]
        while True:
          try:
            q.wait(block=False)
            q.task_done()
          except Exception:
            break
        return items

      def drain(q):
        items = content(q)
        if isinstance(q, deque):
          q.clear()
        elif isinstance(q, Recorder):
          del q.items[:]
        return items

      foreign = [0]
      for idx, op in enumerate(case["ops"]):
        where = "op %d %s" % (idx, op)
        if op[0] == "subscribe":
          _, qi, sig, kind, form = op
          k = kind or "fifo"
          arg = Event(signal=signals[sig]) if form == "event" else signals[sig]
          members = subs.get((k, sig), []) + [q for (kk, ss, q) in fresh if (kk, ss) == (k, sig)]
          if qi in members:
            classes.append("resubscribe")
            if any(type(queues[o]) is deque and type(queues[qi]) is deque and o != qi
                   and list(queues[o]) == list(queues[qi]) for o in members):
              resub_before_pub = True
          if kind is None:
            af.subscribe(queues[qi], arg)
          else:
            af.subscribe(queues[qi], arg, queue_type=kind)
          if qi not in subs.get((k, sig), []):
            fresh[(k, sig, qi)] = True
          eq = [o for o in set(members) | {qi} if type(queues[o]) is deque]
          if len(eq) >= 2 and len(set(tuple(id(x) for x in queues[o]) for o in eq)) < len(eq):
            seen_equal_pair = True
        elif op[0] == "publish":
          nid[0] += 1
          sig = op[1]
          must = set((k, q) for (k, s2), qs in subs.items() if s2 == sig for q in qs)
          pending.append((nid[0], sig, must))
          af.publish(Event(signal=signals[sig], payload=nid[0]))
          classes.append("publish_with_%d_subscribers" % min(len(must), 3))
        elif op[0] == "touch":
          foreign[0] += 1
          q = queues[op[1]]
          if isinstance(q, Recorder):
            q.items.append("foreign%d" % foreign[0])
          else:
            q.append("foreign%d" % foreign[0])
        elif op[0] == "settle":
          s.quiesce()
          # a publication may still have been waiting in the fabric when a later
          # subscription was made: anything subscribed since the last settle is "may"
          pending = [(pid, sg, must, set((k, q) for (k, s2, q) in fresh if s2 == sg))
                     for (pid, sg, must) in pending]
          for (k, sig, q) in list(fresh):
            subs.setdefault((k, sig), [])
            if q not in subs[(k, sig)]:
              subs[(k, sig)].append(q)
          fresh.clear()
          for qi, q in enumerate(queues):
            got = [e.payload for e in drain(q) if not isinstance(e, str)]
            lo, hi = {}, {}
            for (pid, sig, must, may) in pending:
              nmust = sum(1 for (k, x) in must if x == qi)
              nmay = sum(1 for (k, x) in may if x == qi and (k, x) not in must)
              if nmust or nmay:
                lo[pid], hi[pid] = nmust, nmust + nmay
            for pid in set(got) | set(lo):
              c = got.count(pid)
              if not (lo.get(pid, 0) <= c <= hi.get(pid, 0)):
                sig = [p[1] for p in pending if p[0] == pid][0]
                raise PropertyViolation(
                  "%s: queue %d (%s) received publication %d (%s) %d time(s), expected %s; "
                  "settled subscriptions %s" % (
                    where, qi, case["queues"][qi], pid, sig, c,
                    lo.get(pid, 0) if lo.get(pid, 0) == hi.get(pid, 0) else "%d..%d" % (lo.get(pid, 0), hi.get(pid, 0)),
                    dict(("%s/%s" % k, v) for k, v in subs.items())),
                  "C06:delivery")
          pending = []
      result["nontrivial"] = seen_equal_pair and resub_before_pub
      result["classes"] = classes + (["equal_content_pair"] if seen_equal_pair else [])

    s = detsched.Scheduler(schedule=case["schedule"], step_limit=400000,
                           trace_files=[files["activeobject"]])
    try:
      detsched.guarded_run(s, body)
    except detsched.Deadlock as e:
      raise PropertyViolation("deadlock: %s" % e, "C06:deadlock")
    except detsched.StepLimit as e:
      raise PropertyViolation("no quiescence: %s" % e, "C06:livelock")
    if s.thread_errors:
      name, e, tb = s.thread_errors[0]
      raise PropertyViolation("thread %s died: %s: %s" % (name, type(e).__name__, e), "C06:thread-error")
    stats.case(case, result.get("nontrivial", False), sorted(set(result.get("classes", []))))


PROP = C06
