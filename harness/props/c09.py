"""C09 - lifo subscriptions put events at the front of an active object's queue."""
from hypothesis import strategies as st

from ..run import Prop
from ..common import PropertyViolation
from .. import detsched, aocheck
from ..refmodel import ModelDeque
from .c04 import schedule_st

SIGS = ["VA", "VB", "VC"]


@st.composite
def parked_case(draw):
  subs = []
  for sig in SIGS:
    k = draw(st.sampled_from(["none", "fifo", "lifo", "lifo", "both"]))
    if k in ("fifo", "both"):
      subs.append([sig, "fifo"])
    if k in ("lifo", "both"):
      subs.append([sig, "lifo"])
  n = draw(st.integers(1, 8))
  ops = [[draw(st.sampled_from(["post_fifo", "post_lifo", "publish", "publish", "publish_via_ao"])),
          draw(st.sampled_from(SIGS))] for _ in range(n)]
  # each subscription is made before start_at or at run time; a foreign plain deque may
  # subscribe to the same signals before or after the active object does
  return {"subs": subs, "ops": ops, "schedule": [list(x) for x in draw(schedule_st)],
          "default_kind": draw(st.booleans()),
          "when": [draw(st.sampled_from(["before", "before", "runtime"])) for _ in subs],
          "foreign": draw(st.sampled_from(["none", "none", "first", "last"])),
          "foreign_kind": draw(st.sampled_from(["lifo", "fifo"]))}


class C09(Prop):
  id = "C09"
  quick_examples = 300
  thorough_examples = 4000
  rule = ("Generated scenarios under the deterministic scheduler: one ActiveObject subscribes "
          "(each subscription before start_at or at run time) to each of three signals with fifo, lifo, "
          "both or no subscription, optionally with a foreign plain deque subscribed to the same "
          "signals before or after it; "
          "its thread is then parked inside a handler that waits on a harness gate while the body "
          "performs 1-8 generated operations post_fifo / post_lifo / fabric publish / publish "
          "through the object, each followed by a settle (every thread blocked, so the delivery "
          "threads have placed the event); then the gate opens. Oracle: the dispatch order after "
          "the gate equals a model deque in which fifo posts and fifo-subscribed deliveries go to "
          "the back and lifo posts and lifo-subscribed deliveries go to the front. Non-trivial: a "
          "lifo-subscribed delivery arrived while >=1 event was pending; distinct = distinct case "
          "digests.")
  assumptions = ["handlers may block (the gate) - a handler waiting on a threading primitive is legal user code",
                 "each operation is settled before the next, so the expected order is unique"]

  def strategy(self, tier):
    return parked_case()

  def check(self, case, stats):
    ao = detsched.install()
    detsched.reset(ao)
    from miros.event import Event, signals
    files = detsched.miros_files()
    for s_ in SIGS + ["VGATE"]:
      signals.append(s_)
    rec = aocheck.Rec()
    rec.gate["open"] = False
    info = {"nontrivial": False}
    model = ModelDeque(500)

    def body(s):
      A = aocheck.make_ao_class(rec)
      chart = A(name="ao1")

      def on_dispatch(c, e):
        if e.signal_name == "VGATE":
          s.block(lambda: rec.gate["open"], None, what="gate")
      fn = aocheck.flat_chart(rec, on_dispatch=on_dispatch, sigs=SIGS + ["VGATE"])
      kinds = {}
      when = case.get("when") or ["before"] * len(case["subs"])
      foreign_q = __import__("collections").deque(maxlen=50)

      def foreign_subscribe():
        for sig in SIGS:
          ao.ActiveFabric().subscribe(foreign_q, Event(signal=signals[sig]),
                                      queue_type=case.get("foreign_kind", "lifo"))

      def subscribe(sig, kind):
        kinds.setdefault(sig, []).append(kind)
        if kind == "fifo" and case["default_kind"]:
          chart.subscribe(Event(signal=signals[sig]))
        else:
          chart.subscribe(Event(signal=signals[sig]), queue_type=kind)
      if case.get("foreign") == "first":
        foreign_subscribe()
      for (sig, kind), w_ in zip(case["subs"], when):
        if w_ == "before":
          subscribe(sig, kind)
      chart.start_at(fn)
      s.quiesce()
      for (sig, kind), w_ in zip(case["subs"], when):
        if w_ == "runtime":
          subscribe(sig, kind)
      if case.get("foreign") == "last":
        foreign_subscribe()
      s.quiesce()
      chart.post_fifo(Event(signal=signals["VGATE"], payload=0))
      s.quiesce()
      if not rec.dispatch or rec.dispatch[-1]["sig"] != "VGATE":
        raise PropertyViolation("the gate event was not dispatched (dispatched: %s)" % (
          [d["sig"] for d in rec.dispatch],), "C09:setup")
      af = ao.ActiveFabric()
      for i, (op, sig) in enumerate(case["ops"]):
        nid = i + 1
        e = Event(signal=signals[sig], payload=nid)
        if op == "post_fifo":
          chart.post_fifo(e)
          model.post_fifo(nid)
        elif op == "post_lifo":
          chart.post_lifo(e)
          model.post_lifo(nid)
        else:
          if op == "publish":
            af.publish(e)
          else:
            chart.publish(e)
          for kind in kinds.get(sig, []):
            if kind == "lifo":
              if model.q:
                info["nontrivial"] = True
              model.post_lifo(nid)
            else:
              model.post_fifo(nid)
        s.quiesce()
      rec.gate["open"] = True
      s.quiesce()

    s = detsched.Scheduler(schedule=case["schedule"], step_limit=400000,
                           trace_files=[files["activeobject"]])
    try:
      detsched.guarded_run(s, body)
    except (detsched.Deadlock, detsched.StepLimit) as e:
      raise PropertyViolation("no quiescence: %s" % e, "C09:liveness")
    if s.thread_errors:
      name, e, tb = s.thread_errors[0]
      raise PropertyViolation("thread %s died: %s: %s" % (name, type(e).__name__, e), "C09:thread-error")
    stats.case(case, info["nontrivial"], ["subs_%s" % "+".join(sorted(set(k for _, k in case["subs"]))) or "none"])
    got = [d["id"] for d in rec.dispatch if d["sig"] != "VGATE"]
    if got != model.q:
      bucket = "C09:order"
      if sorted(got) == sorted(model.q):
        bucket = "C09:lifo-delivery-position"
      self.violation(stats, "subscriptions %s, operations %s: dispatched %s, a deque with lifo "
                     "deliveries at the front gives %s" % (case["subs"], case["ops"], got, model.q), bucket)


PROP = C09
