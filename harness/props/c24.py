"""C24 - impossible initial transitions (and handlers without a status) raise instead of hanging."""
import copy
from hypothesis import strategies as st

from ..run import Prop
from ..common import PropertyViolation, HarnessBound
from .. import chartgen, hsmcheck
from ..chartgen import descendants
from ..refmodel import Model
from ..hsmcheck import name_of


@st.composite
def faulty_case(draw):
  spec = draw(chartgen.chart_spec(max_states=9, max_sigs=2, with_guards=False))
  n = spec["n"]
  f = draw(st.integers(0, n - 1))
  kinds = ["init_self", "none_status"]
  others = [j for j in range(n) if j != f and j not in descendants(spec["parent"], f)]
  anc = Model(spec).path(f)[1:]
  if anc:
    kinds.append("init_ancestor")
  if [j for j in others if j not in anc]:
    kinds.append("init_elsewhere")
  if anc:
    kinds.append("none_exit_walk")
  if descendants(spec["parent"], f) and [j for j in others if j not in anc]:
    kinds.append("none_exit_climb")
  if descendants(spec["parent"], f):
    kinds.append("none_search_init_target")
    kinds.append("none_search_target_parent")
  kinds.append("none_else")
  kinds.append("none_search_start")
  kinds.append("none_after_decline")
  kind = draw(st.sampled_from(kinds))
  # on the queued processor the event may also travel through the queue
  via = draw(st.sampled_from(["dispatch", "next_rtc", "complete_circuit"]))
  if kind == "none_search_start":
    # f names its parent but returns no status for the super-state probe; the chart is started
    # through it (f is the start state, encloses it, or lies on its init chain)
    through = [x for x in range(n) if f in Model(spec).path(x) or any(q[1] == f for q in Model(spec).start(x)[:-1])]
    through = [x for x in through if x == f or f in Model(spec).path(x)]
    return {"spec": spec, "fault_state": f, "fault": kind, "bad_target": None, "reach": "start_at",
            "start": draw(st.sampled_from(through)), "host": draw(st.sampled_from(["plain", "instr", "queued"])),
            "via": via}
  if kind == "none_after_decline":
    # f declines an event (a failed guard) and then returns no status for the re-query the processor
    # makes to learn f's parent
    return {"spec": spec, "fault_state": f, "fault": kind, "bad_target": None, "reach": "dispatch",
            "start": f, "host": draw(st.sampled_from(["plain", "instr", "queued"])), "via": via}
  if kind == "none_exit_climb":
    # f returns no status for EXIT; the chart rests strictly below f and the resting state itself
    # takes a transition to a state outside f: f is exited by the climb towards the common ancestor
    outside = [j for j in others if j not in anc]
    opts = []
    for x in descendants(spec["parent"], f):
      m = Model(spec)
      m.start(x)
      if m.cur != f and f in m.path(m.cur):
        opts.append(x)
    if not opts:
      kind = "init_self"
    else:
      return {"spec": spec, "fault_state": f, "fault": kind, "bad_target": draw(st.sampled_from(outside)),
              "reach": "dispatch", "start": draw(st.sampled_from(opts)),
              "host": draw(st.sampled_from(["plain", "instr", "queued"])), "via": via}
  if kind == "none_else":
    # f has no 'else' clause: it names no parent and returns no status for anything it has no
    # clause for.  Either the chart is started through it, or a later transition leads into its
    # region: f lies on the path of the target, at any level, and was not consulted before
    tgts = [f] + descendants(spec["parent"], f)
    opts = []
    for x in range(n):
      m = Model(spec)
      seq = m.start(x)
      if f in m.path(x) or any(q[1] == f for q in seq):
        continue
      for t in tgts:
        opts.append((x, t))
    if opts and draw(st.integers(0, 3)) > 0:
      x, t = draw(st.sampled_from(opts))
      return {"spec": spec, "fault_state": f, "fault": kind, "bad_target": t, "reach": "dispatch",
              "start": x, "host": draw(st.sampled_from(["plain", "instr", "queued"])), "via": via}
    through = [x for x in range(n) if f in Model(spec).path(x) or any(q[1] == f for q in Model(spec).start(x))]
    return {"spec": spec, "fault_state": f, "fault": kind, "bad_target": None, "reach": "start_at",
            "start": draw(st.sampled_from(through)), "host": draw(st.sampled_from(["plain", "instr", "queued"])),
            "via": via}
  if kind == "none_search_target_parent":
    # f answers the super-state probe with no status; one of its children is the target of a
    # transition that has to climb from the target towards the source (not a local topology)
    kids = [j for j in range(n) if spec["parent"][j] == f]
    opts = []
    for t in kids:
      for x in range(n):
        m = Model(spec)
        m.start(x)
        if m.cur != t and m.topology({"S": m.cur, "T": t}) in "efg":
          opts.append((x, t))
    if not opts:
      kind = "init_self"
    else:
      x, t = draw(st.sampled_from(opts))
      return {"spec": spec, "fault_state": f, "fault": kind, "bad_target": t, "reach": "dispatch",
              "start": x, "host": draw(st.sampled_from(["plain", "instr", "queued"])), "via": via,
              "variant": draw(st.sampled_from(["none_search", "none_search_set"]))}
  if kind == "none_exit_walk":
    # f returns no status for EXIT; an ancestor of f takes a transition while f is active
    return {"spec": spec, "fault_state": f, "fault": kind, "bad_target": draw(st.sampled_from(anc)),
            "reach": "dispatch", "start": f, "host": draw(st.sampled_from(["plain", "instr", "queued"])),
            "target": draw(st.integers(0, n - 1)), "via": via}
  if kind == "none_search_init_target":
    # a proper descendant g of f answers the super-state probe with no status and is f's init target
    g = draw(st.sampled_from(descendants(spec["parent"], f)))
    starts = [x for x in range(n) if ("INIT", f) not in Model(spec).start(x) and x != g]
    if not starts:
      kind = "init_self"
    else:
      return {"spec": spec, "fault_state": f, "fault": kind, "bad_target": g, "reach": "dispatch",
              "start": draw(st.sampled_from(starts)), "host": draw(st.sampled_from(["plain", "instr", "queued"])),
              "variant": draw(st.sampled_from(["none_search", "none_search_set"])), "via": via,
              "placement": draw(st.sampled_from(["target", "below"]))}
  if kind == "init_self":
    bad = f
  elif kind == "init_ancestor":
    bad = draw(st.sampled_from(anc))
  elif kind == "init_elsewhere":
    bad = draw(st.sampled_from([j for j in others if j not in anc]))
  else:
    bad = None
  reach = draw(st.sampled_from(["start_at", "dispatch", "dispatch"]))
  start = f
  if reach == "dispatch":
    # a start state whose start-up never runs INIT of f
    good = []
    for g in range(n):
      m = Model(spec)
      seq = m.start(g)
      if ("INIT", f) not in seq:
        good.append(g)
    if not good:
      reach = "start_at"
    else:
      start = draw(st.sampled_from(good))
  return {"spec": spec, "fault_state": f, "fault": kind, "bad_target": bad, "reach": reach,
          "start": start, "host": draw(st.sampled_from(["plain", "instr", "queued"])), "via": via}


def send(chart, case, e):
  """Hand the event to the processor: directly, or - on the queued processor - through its queue."""
  via = case.get("via", "dispatch") if case["host"] == "queued" else "dispatch"
  if via == "dispatch":
    return chart.dispatch(e)
  chart.post_fifo(e)
  if via == "next_rtc":
    return chart.next_rtc()
  return chart.complete_circuit()


def via_of(case):
  return case.get("via", "dispatch") if case["host"] == "queued" else "dispatch"


class C24(Prop):
  id = "C24"
  quick_examples = 2000
  thorough_examples = 8000
  rule = ("Hypothesis-generated well-formed chart with ONE injected fault: a state's initial "
          "transition targets itself, one of its ancestors, or a state elsewhere in the forest "
          "(not nested inside it); or a state returns no status (None) when a user event is "
          "offered to it, for its exit event while an ancestor's transition walks out through it or while a "
          "transition of the resting state below it climbs out of its branch, or "
          "for the super-state probe while it is the target of an initial transition, or for the super-state "
          "probe while it is the PARENT of the target of a transition that climbs from the target towards the "
          "source (Samek topologies e, f, g); or a state has no 'else' clause at all - it names no parent and "
          "returns no status for anything it has no clause for - and lies on the path of a transition's target "
          "at ANY level above it (or is the target), or on the path start_at has to climb; or a state names its parent but "
          "returns no status for the super-state probe on the path start_at climbs; or a state declines an event and then "
          "returns no status for the re-query that asks for its parent. The fault is reached by start_at (the faulty state is the start state) or "
          "by dispatch (the chart is started where the fault is not touched, then an event whose "
          "transition targets the faulty state - or, for the status fault, the offered event - is "
          "dispatched), on the plain, instrumented and queued processors; on the queued processor the event is "
          "handed over by dispatch, or posted and run by next_rtc or by complete_circuit. Oracle: the call that "
          "reaches the fault raises HsmTopologyException before the call bound (20k top() calls / "
          "200k handler calls); a bound hit, any other exception, or a silent return is a failure (for the super-state-probe "
          "fault of an init target termination - by the exception or normally - is required, nothing more). "
          "Non-trivial: the fault is reached through dispatch; distinct = distinct case digests.")
  assumptions = [
    "hang detection is a call-count bound enforced by a top()-counting subclass and the handlers",
    "handlers that return nothing ONLY for ENTRY or INIT are not generated as faults (the processor does "
    "not consult those answers)",
  ]

  def strategy(self, tier):
    return faulty_case()

  def check_status_fault(self, case, stats):
    """Handlers without a status for the exit event (reached by the exit walk: must raise) or for
    the super-state probe (as an init target reached by dispatch: must terminate)."""
    from miros.event import Event, signals
    from miros.hsm import HsmTopologyException
    spec = copy.deepcopy(case["spec"])
    f, kind = case["fault_state"], case["fault"]
    ZS = "VE"
    spec["sigs"] = list(spec["sigs"]) + [ZS]
    model = Model(case["spec"])
    if kind == "none_exit_walk":
      a = case["bad_target"]                   # the ancestor that takes the transition
      spec["faults"] = {str(f): "none_exit"}
      spec["react"][a] = dict(spec["react"][a])
      spec["react"][a][ZS] = ["trans", case["target"]]
      must_raise = True
    elif kind == "none_search_start":
      spec["faults"] = {str(f): "none_search_set"}
      must_raise = True
    elif kind == "none_after_decline":
      spec["faults"] = {str(f): "none_empty"}
      model.start(case["start"])
      rest = model.cur
      for x in model.path(rest):
        spec["react"][x] = dict(spec["react"][x])
        if x == f:
          spec["react"][x][ZS] = ["decline"]
          break
        spec["react"][x].pop(ZS, None)
      if f not in model.path(rest):
        # the start-up drilled somewhere else: offer the event where f is
        case = dict(case, start=f)
      must_raise = True
    elif kind == "none_exit_climb":
      spec["faults"] = {str(f): "none_exit"}
      model.start(case["start"])
      rest = model.cur
      spec["react"][rest] = dict(spec["react"][rest])
      spec["react"][rest][ZS] = ["trans", case["bad_target"]]
      must_raise = True
    elif kind == "none_else":
      spec["faults"] = {str(f): "none_else"}
      must_raise = True
      if case["reach"] == "dispatch":
        model.start(case["start"])
        rest = model.cur
        spec["react"][rest] = dict(spec["react"][rest])
        spec["react"][rest][ZS] = ["trans", case["bad_target"]]
    elif kind == "none_search_target_parent":
      spec["faults"] = {str(f): case["variant"]}
      model.start(case["start"])
      rest = model.cur
      spec["react"][rest] = dict(spec["react"][rest])
      spec["react"][rest][ZS] = ["trans", case["bad_target"]]
      must_raise = True
    else:
      g = case["bad_target"]
      # the state that answers the probe with nothing: the init target itself, or (placement
      # "below") the child of f on the way down to the target, the last one the drill-down asks
      bad = g
      if case.get("placement") == "below":
        while spec["parent"][bad] != f:
          bad = spec["parent"][bad]
      spec["faults"] = {str(bad): case["variant"]}
      spec["init"][f] = g
      model.start(case["start"])
      rest = model.cur
      spec["react"][rest] = dict(spec["react"][rest])
      spec["react"][rest][ZS] = ["trans", f]
      must_raise = True
    rt = chartgen.build(spec, decorate=spec["spy"])
    chart = hsmcheck.make_host(case["host"])
    if kind == "none_else" and case["reach"] == "dispatch":
      m_ = Model(case["spec"])
      m_.start(case["start"])
      topo = m_.topology({"S": m_.cur, "T": case["bad_target"]})
      lvl = m_.path(case["bad_target"]).index(f)
      extra_classes = ["none_else_topology_" + topo, "none_else_levels_above_target_%d" % min(lvl, 3)]
    else:
      extra_classes = []
    stats.case(case, case["reach"] == "dispatch", ["fault_" + kind, "reach_" + case["reach"], "host_" + case["host"],
                                                   "via_" + via_of(case)] + extra_classes)
    what = "%s (faulty state %s) on %s via %s" % (
      kind, name_of(case["bad_target"] if kind == "none_search_init_target" else f), case["host"], via_of(case))
    try:
      chart.start_at(rt.fns[case["start"]])
      if case["reach"] == "start_at":
        raise PropertyViolation("%s: start_at(%s) passed through a state that returns no status and "
                                "returned normally (resting in %s)" % (what, name_of(case["start"]),
                                                                      chart.state_name), "C24:silent")
    except HsmTopologyException:
      return            # the probe fault may already surface while starting
    except PropertyViolation:
      raise
    except HarnessBound as e:
      raise PropertyViolation("%s: start_at never returned (%s)" % (what, e), "C24:hang-start")
    except Exception as e:
      raise PropertyViolation("%s: start_at raised %s (%s)" % (what, type(e).__name__, e), "C24:wrong-exception")
    try:
      send(chart, case, Event(signal=signals[ZS]))
    except HsmTopologyException:
      return
    except HarnessBound as e:
      raise PropertyViolation("%s: dispatch never returned (%s)" % (what, e), "C24:hang-dispatch")
    except Exception as e:
      raise PropertyViolation("%s: dispatch raised %s (%s), not HsmTopologyException" % (
        what, type(e).__name__, e), "C24:wrong-exception")
    if must_raise:
      raise PropertyViolation("%s: a state that returned no status was consulted (%s) and the call returned "
                              "normally (resting in %s)" % (
                                what, "for its exit event, by the exit walk" if kind == "none_exit_walk" else
                                "for its exit event, by the climb out of the source's branch" if kind == "none_exit_climb" else
                                "on the way to the transition target" if kind == "none_else" else
                                "for the re-query after it declined the event" if kind == "none_after_decline" else
                                "for the super-state probe, by the drill-down to an init target" if kind == "none_search_init_target" else
                                "as the parent of the transition target, for the super-state probe",
                                chart.state_name), "C24:silent")

  def check(self, case, stats):
    from miros.event import Event, signals
    from miros.hsm import HsmTopologyException
    if case["fault"] in ("none_exit_walk", "none_exit_climb", "none_search_init_target",
                         "none_search_target_parent", "none_else", "none_search_start", "none_after_decline"):
      return self.check_status_fault(case, stats)
    spec = copy.deepcopy(case["spec"])
    f, kind = case["fault_state"], case["fault"]
    ZS, ZN = "VE", "VF"          # signals reserved for reaching / triggering the fault
    spec["sigs"] = list(spec["sigs"]) + [ZS, ZN]
    model = Model(case["spec"])
    model.start(case["start"])
    rest = model.cur
    events = []
    if kind == "none_status":
      spec["react"][f] = dict(spec["react"][f])
      spec["react"][f][ZN] = ["none"]
    else:
      spec["init"][f] = case["bad_target"]
    if case["reach"] == "dispatch":
      if kind == "none_status":
        # lead into f's region, then offer the event; f must be on the active path and the
        # states below it must pass ZN on (they have no reaction to ZN: it is a fresh signal)
        m2 = Model(case["spec"])
        m2.cur = rest
        spec["react"][rest] = dict(spec["react"][rest])
        spec["react"][rest][ZS] = ["trans", f]
        events = [ZS, ZN]
      else:
        spec["react"][rest] = dict(spec["react"][rest])
        spec["react"][rest][ZS] = ["trans", f]
        events = [ZS]
    else:
      if kind == "none_status":
        events = [ZN]
    rt = chartgen.build(spec, decorate=spec["spy"])
    chart = hsmcheck.make_host(case["host"])
    stats.case(case, case["reach"] == "dispatch",
               ["fault_" + kind, "reach_" + case["reach"], "host_" + case["host"], "via_" + via_of(case)])
    calls = [("start_at(%s)" % name_of(case["start"]), lambda: chart.start_at(rt.fns[case["start"]]))]
    for sig in events:
      calls.append(("dispatch(%s) via %s" % (sig, via_of(case)),
                    (lambda s: lambda: send(chart, case, Event(signal=signals[s])))(sig)))
    # the faulty call is the last one, except start_at-reached init faults (the first)
    faulty_index = len(calls) - 1
    if case["reach"] == "start_at" and kind != "none_status":
      faulty_index = 0
    what = "%s in %s (%s -> %s), reached by %s on %s" % (
      kind, name_of(f), name_of(f), name_of(case["bad_target"]) if case["bad_target"] is not None else "-",
      case["reach"], case["host"])
    for k, (label, call) in enumerate(calls[:faulty_index + 1]):
      try:
        call()
      except HsmTopologyException:
        if k == faulty_index:
          return
        raise PropertyViolation("%s: %s raised HsmTopologyException before the fault was reached" % (
          what, label), "C24:early")
      except HarnessBound as e:
        b = "C24:hang-dispatch" if label.startswith("dispatch") else "C24:hang-start"
        if self.violation(stats, "%s: %s never returned (%s)" % (what, label, e), b) is False:
          return
      except Exception as e:
        raise PropertyViolation("%s: %s raised %s (%s), not HsmTopologyException" % (
          what, label, type(e).__name__, e), "C24:wrong-exception")
      else:
        if k == faulty_index:
          raise PropertyViolation("%s: %s returned normally, resting in %s" % (
            what, label, chart.state_name), "C24:silent")


PROP = C24

