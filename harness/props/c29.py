"""C29 - thread-safe attribute values belong to their instance."""
from hypothesis import strategies as st

from ..run import Prop
from ..common import PropertyViolation

ATTRS = ["alpha", "beta", "gamma"]


@st.composite
def history(draw):
  nattr = draw(st.integers(1, 3))
  base = draw(st.sampled_from(["ThreadSafeAttributes", "ActiveObjectWithAttributes", "two_classes"]))
  n = draw(st.integers(2, 12))
  ops = []
  created = 0
  for _ in range(n):
    k = draw(st.sampled_from(["new", "assign", "assign", "read", "read", "augment", "discard"]))
    if k == "new" or created == 0:
      ops.append(["new", draw(st.integers(0, 1))])
      created += 1
    else:
      inst = draw(st.integers(0, created - 1))
      attr = draw(st.integers(0, nattr - 1))
      if k == "discard":
        ops.append(["discard", inst])      # the instance is dropped and garbage collected
        for _ in range(3):
          ops.append(["new", draw(st.integers(0, 1))])
          created += 1
      elif k == "read":
        ops.append(["read", inst, attr])
      else:
        ops.append([k, inst, attr, draw(st.integers(-5, 5))])
  return {"nattr": nattr, "base": base, "ops": ops,
          "falsy": draw(st.integers(0, 3)) == 0}      # instances that are falsy (container-like classes)


class C29(Prop):
  id = "C29"
  quick_examples = 600
  thorough_examples = 6000
  rule = ("Hypothesis-generated histories: a freshly defined class (subclass of "
          "ThreadSafeAttributes or ActiveObjectWithAttributes, or two sibling classes with the same "
          "attribute names) with 1-3 names in _attributes, then 2-12 operations from: create an "
          "instance, assign an attribute on an instance, augment (+=) it, read it, discard an instance "
          "(dropped and garbage collected, then a new one is created - possibly at the same address); "
          "in a quarter of the cases the classes make their instances falsy (__len__ / __bool__). Oracle: a dict "
          "keyed by (instance, attribute) that defaults to 0: every read returns the model value of "
          "THAT instance. Non-trivial: >=2 instances exist and an assignment to one happens between "
          "two reads of another; distinct = distinct case digests.")
  assumptions = ["single-threaded; the statements live in this real source file (miros inspects the "
                 "caller's source line)"]

  def strategy(self, tier):
    return history()

  def check(self, case, stats):
    import miros
    names = ATTRS[:case["nattr"]]
    if case["base"] == "ActiveObjectWithAttributes":
      bases = [(miros.ActiveObjectWithAttributes,)] * 2
    else:
      bases = [(miros.ThreadSafeAttributes,)] * 2
    body0, body1 = {"_attributes": list(names)}, {"_attributes": list(names)}
    if case.get("falsy") and case["base"] != "ActiveObjectWithAttributes":
      body0["__len__"] = lambda self: 0
      body1["__bool__"] = lambda self: False
    k0 = type("VfHolder0", bases[0], body0)
    k1 = type("VfHolder1", bases[1], body1) if case["base"] == "two_classes" else k0
    klasses = [k0, k1]
    insts, model = [], {}
    o = None
    last_read, interleaved = {}, False
    for idx, op in enumerate(case["ops"]):
      where = "op %d %s" % (idx, op)
      try:
        if op[0] == "new":
          fresh = klasses[op[1]]()
          insts.append(fresh)
          # a brand-new instance reads 0 for every attribute (freshly allocated objects often
          # reuse the address of a discarded one)
          for nm in names:
            v = getattr(fresh, nm)
            if v != 0:
              fresh = None
              return self.fail(stats, case, True, "%s: a new instance reads %s == %r before any assignment "
                               "(instances so far: %d)" % (where, nm, v, len(insts)))
          fresh = None
          continue
        if op[0] == "discard":
          if insts[op[1]] is not None:
            insts[op[1]] = None
            o = None                 # no lingering reference from the previous operation
            import gc
            gc.collect()
            # many fresh objects: one of them almost surely lands where the discarded one was
            crowd = [k_() for k_ in klasses for _ in range(40)]
            for c_ in crowd:
              for nm in names:
                v = getattr(c_, nm)
                if v != 0:
                  crowd = c_ = None
                  return self.fail(stats, case, True, "%s: a new instance, created after another was "
                                   "garbage collected, reads %s == %r before any assignment" % (where, nm, v))
            crowd = c_ = None
          continue
        if insts[op[1]] is None:
          continue
        o, name = insts[op[1]], names[op[2]]
        key = (op[1], name)
        if op[0] == "assign":
          setattr(o, name, op[3])
          model[key] = op[3]
        elif op[0] == "augment":
          # written out per name so that miros sees a real '+=' source line
          if name == "alpha":
            o.alpha += op[3]
          elif name == "beta":
            o.beta += op[3]
          else:
            o.gamma += op[3]
          model[key] = model.get(key, 0) + op[3]
        if op[0] in ("assign", "augment"):
          for k2 in last_read:
            if k2[0] != op[1]:
              last_read[k2] = "touched"
        if op[0] == "read":
          got = getattr(o, name)
          if last_read.get(key) == "touched":
            interleaved = True
          last_read[key] = "read"
          want = model.get(key, 0)
          if got != want:
            return self.fail(stats, case, interleaved, "%s: instance %d reads %s == %r, expected %r "
                             "(instances: %d)" % (where, op[1], name, got, want, len(insts)))
      except PropertyViolation:
        raise
      except Exception as e:
        raise PropertyViolation("%s raised %s: %s" % (where, type(e).__name__, e), "C29:raised")
    stats.case(case, interleaved and len(insts) >= 2, ["base_" + case["base"], "instances_%d" % min(len(insts), 4)])

  def fail(self, stats, case, interleaved, msg):
    stats.case(case, interleaved, ["base_" + case["base"]])
    self.violation(stats, msg, "C29:shared-between-instances")


PROP = C29
