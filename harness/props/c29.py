"""C29 - thread-safe attribute values belong to their instance."""
from hypothesis import strategies as st

from ..run import Prop
from ..common import PropertyViolation

ATTRS = ["alpha", "beta", "gamma"]


@st.composite
def history(draw):
  nattr = draw(st.integers(1, 3))
  base = draw(st.sampled_from(["ThreadSafeAttributes", "ActiveObjectWithAttributes", "two_classes"]))
  n = draw(st.integers(2, 14))
  ops = [["new", 0], ["new", draw(st.integers(0, 1))]]
  created = 2
  for _ in range(n):
    k = draw(st.sampled_from(["new", "assign", "assign", "read", "read", "read", "augment", "augment_from",
                              "augment_side", "discard", "subclass"]))
    if k == "new":
      ops.append(["new", draw(st.integers(0, 1))])
      created += 1
    elif k == "subclass":
      # a class defined late - after instances of its parent were assigned - inheriting or re-listing
      # the attribute names; its new instance starts from 0 like any other
      ops.append(["subclass", draw(st.integers(0, 1)), draw(st.booleans())])
      created += 1
    else:
      inst = draw(st.integers(0, created - 1))
      attr = draw(st.integers(0, nattr - 1))
      if k == "discard":
        ops.append(["discard", inst])      # the instance is dropped and garbage collected
        for _ in range(3):
          ops.append(["new", draw(st.integers(0, 1))])
          created += 1
      elif k == "read":
        ops.append(["read", inst, attr])
      elif k == "augment_from":
        ops.append([k, inst, attr, draw(st.integers(0, created - 1))])
      elif k == "augment_side":
        # a.x += f() where f, on its way, assigns the same attribute of another instance
        ops.append([k, inst, attr, draw(st.integers(0, created - 1)), draw(st.integers(-5, 5))])
      else:
        ops.append([k, inst, attr, draw(st.integers(-5, 5))])
  return {"nattr": nattr, "base": base, "ops": ops,
          "falsy": draw(st.integers(0, 3)) == 0,
          # classes that answer unknown attribute names by asking a prototype instance (__getattr__)
          "delegating": draw(st.integers(0, 3)) == 0}      # instances that are falsy (container-like classes)


class C29(Prop):
  id = "C29"
  quick_examples = 600
  thorough_examples = 6000
  rule = ("Hypothesis-generated histories: a freshly defined class (subclass of "
          "ThreadSafeAttributes or ActiveObjectWithAttributes, or two sibling classes with the same "
          "attribute names) with 1-3 names in _attributes, then 2-12 operations from: create an "
          "instance, assign an attribute on an instance, augment (+=) it by a number or by the same attribute "
          "of another instance (a.x += b.x) or by a call that assigns another instance's attribute on its way (a.x += f()), read it, define a subclass late (inheriting or re-listing the names) and "
          "create its first instance, discard an instance "
          "(dropped and garbage collected, then a new one is created - possibly at the same address); "
          "in a quarter of the cases the classes make their instances falsy (__len__ / __bool__), in a quarter they answer unknown attribute names by asking their first instance (__getattr__). Oracle: a dict "
          "keyed by (instance, attribute) that defaults to 0: every read returns the model value of "
          "THAT instance, and after every assignment every attribute of every live instance is read "
          "back and compared. Non-trivial: an assignment to one instance is made while another live "
          "instance holds a different non-zero value of the same attribute; distinct = distinct case digests. A quarter "
          "of the cases are threaded instead: 2-3 threads under the deterministic scheduler, each writing, augmenting "
          "and reading back ITS OWN instance of one class (pre-emption at every line of miros/thread_safe_attributes.py): "
          "every read returns what that thread last wrote.")
  assumptions = ["the statements live in this real source file (miros inspects the caller's source line)",
                 "the threaded cases run under the deterministic scheduler with a virtual RLock"]

  def strategy(self, tier):
    from .c04 import schedule_st
    fine = st.lists(st.tuples(st.integers(0, 4), st.integers(1, 6)), max_size=80)
    threaded = st.fixed_dictionaries({
      "threaded": st.just(True), "nthreads": st.integers(2, 3), "rounds": st.integers(1, 4),
      "schedule": st.one_of(schedule_st, fine).map(lambda l: [list(x) for x in l])})
    return st.one_of(history(), history(), history(), threaded)

  def check_threaded(self, case, stats):
    """Each thread owns one instance of the same class and only ever touches that instance: every
    read returns what that thread last wrote, whatever the other threads do to THEIR instances."""
    from .. import detsched
    ao = detsched.install()
    detsched.reset(ao)
    import miros
    files = detsched.miros_files()
    klass = type("VfOwned", (miros.ThreadSafeAttributes,), {"_attributes": ["alpha"]})
    bad = []

    def worker(o, base, rounds):
      for r in range(rounds):
        o.alpha = base + r
        got = o.alpha
        if got != base + r:
          bad.append((base, base + r, got))
        o.alpha += 1000
        got = o.alpha
        if got != base + r + 1000:
          bad.append((base, base + r + 1000, got))

    def body(s):
      objs = [klass() for _ in range(case["nthreads"])]
      ths = [ao.Thread(target=worker, args=(objs[t], 100 * (t + 1), case["rounds"]), name="w%d" % t)
             for t in range(case["nthreads"])]
      for t in ths:
        t.start()
      for t in ths:
        t.join()
    s = detsched.Scheduler(schedule=case["schedule"], step_limit=300000,
                           trace_files=[files["thread_safe_attributes"]])
    try:
      detsched.guarded_run(s, body)
    except (detsched.Deadlock, detsched.StepLimit) as e:
      raise PropertyViolation("threads that each use their own instance did not finish: %s" % e, "C29:liveness")
    stats.case(case, True, ["threaded", "threads_%d" % case["nthreads"]])
    if s.thread_errors:
      name, e, tb = s.thread_errors[0]
      raise PropertyViolation("thread %s died: %s: %s" % (name, type(e).__name__, e), "C29:raised")
    if bad:
      base, want, got = bad[0]
      self.violation(stats, "a thread that only uses its own instance (values %d..) wrote %d and read %d back "
                     "while other threads used their instances" % (base, want, got), "C29:shared-between-instances")

  def check(self, case, stats):
    if case.get("threaded"):
      return self.check_threaded(case, stats)
    import miros
    names = ATTRS[:case["nattr"]]
    if case["base"] == "ActiveObjectWithAttributes":
      bases = [(miros.ActiveObjectWithAttributes,)] * 2
    else:
      bases = [(miros.ThreadSafeAttributes,)] * 2
    body0, body1 = {"_attributes": list(names)}, {"_attributes": list(names)}
    if case.get("falsy") and case["base"] != "ActiveObjectWithAttributes":
      body0["__len__"] = lambda self: 0
      body1["__bool__"] = lambda self: False
    proto = []
    if case.get("delegating") and case["base"] != "ActiveObjectWithAttributes":
      def ask_the_prototype(self, name):
        # the usual prototype / wrapper idiom: what this object does not have, the first instance answers
        if proto and proto[0] is not self and proto[0] is not None and not name.startswith("__"):
          return getattr(proto[0], name)
        raise AttributeError(name)
      body0["__getattr__"] = ask_the_prototype
      body1["__getattr__"] = ask_the_prototype
    k0 = type("VfHolder0", bases[0], body0)
    k1 = type("VfHolder1", bases[1], body1) if case["base"] == "two_classes" else k0
    klasses = [k0, k1]
    insts, model = [], {}
    o = None
    interleaved = False
    for idx, op in enumerate(case["ops"]):
      where = "op %d %s" % (idx, op)
      try:
        if op[0] == "new":
          fresh = klasses[op[1]]()
          insts.append(fresh)
          if not proto:
            proto.append(fresh)
          # a brand-new instance reads 0 for every attribute (freshly allocated objects often
          # reuse the address of a discarded one)
          for nm in names:
            v = getattr(fresh, nm)
            if v != 0:
              fresh = None
              return self.fail(stats, case, True, "%s: a new instance reads %s == %r before any assignment "
                               "(instances so far: %d)" % (where, nm, v, len(insts)))
          fresh = None
          continue
        if op[0] == "subclass":
          parent = klasses[op[1]]
          late = type("VfLate%d" % idx, (parent,), {"_attributes": list(names)} if op[2] else {})
          fresh = late()
          insts.append(fresh)
          for nm in names:
            v = getattr(fresh, nm)
            if v != 0:
              fresh = None
              return self.fail(stats, case, True, "%s: a new instance of a class defined after its parent's "
                               "instances were assigned reads %s == %r before any assignment" % (where, nm, v))
          fresh = None
          continue
        if op[0] == "discard":
          if insts[op[1]] is not None:
            insts[op[1]] = None
            o = None                 # no lingering reference from the previous operation
            import gc
            gc.collect()
            # many fresh objects: one of them almost surely lands where the discarded one was
            crowd = [k_() for k_ in klasses for _ in range(40)]
            for c_ in crowd:
              for nm in names:
                v = getattr(c_, nm)
                if v != 0:
                  crowd = c_ = None
                  return self.fail(stats, case, True, "%s: a new instance, created after another was "
                                   "garbage collected, reads %s == %r before any assignment" % (where, nm, v))
            crowd = c_ = None
          continue
        if insts[op[1]] is None:
          continue
        o, name = insts[op[1]], names[op[2]]
        key = (op[1], name)
        if op[0] == "assign":
          setattr(o, name, op[3])
          model[key] = op[3]
        elif op[0] == "augment":
          # written out per name so that miros sees a real '+=' source line
          if name == "alpha":
            o.alpha += op[3]
          elif name == "beta":
            o.beta += op[3]
          else:
            o.gamma += op[3]
          model[key] = model.get(key, 0) + op[3]
        elif op[0] == "augment_side":
          o2 = insts[op[3]]
          if o2 is None:
            continue

          def side_store(target, attribute, value):
            setattr(target, attribute, value)
            return 1
          if name == "alpha":
            o.alpha += side_store(o2, name, op[4])
          elif name == "beta":
            o.beta += side_store(o2, name, op[4])
          else:
            o.gamma += side_store(o2, name, op[4])
          o2 = None
          old = model.get(key, 0)
          model[(op[3], name)] = op[4]
          model[key] = old + 1
        elif op[0] == "augment_from":
          # the right-hand side reads the same attribute of (possibly) another instance, on one line
          o2 = insts[op[3]]
          if o2 is None:
            continue
          if name == "alpha":
            o.alpha += o2.alpha
          elif name == "beta":
            o.beta += o2.beta
          else:
            o.gamma += o2.gamma
          o2 = None
          model[key] = model.get(key, 0) + model.get((op[3], name), 0)
        if op[0] in ("assign", "augment", "augment_from", "augment_side"):
          # discriminating: another live instance holds a different value of this attribute
          for j, other in enumerate(insts):
            if other is not None and j != op[1] and model.get((j, name), 0) != model.get(key, 0) \
               and model.get((j, name), 0) != 0:
              interleaved = True
          other = None
        if op[0] == "read":
          got = getattr(o, name)
          want = model.get(key, 0)
          if got != want:
            return self.fail(stats, case, interleaved, "%s: instance %d reads %s == %r, expected %r "
                             "(instances: %d)" % (where, op[1], name, got, want, len(insts)))
        else:
          # after every change, EVERY attribute of EVERY live instance still reads its own value
          o = None
          for j in range(len(insts)):
            if insts[j] is None:
              continue
            for nm in names:
              got = getattr(insts[j], nm)
              want = model.get((j, nm), 0)
              if got != want:
                return self.fail(stats, case, interleaved, "%s: afterwards instance %d reads %s == %r, expected %r "
                                 "(instances: %d)" % (where, j, nm, got, want, len(insts)))
      except PropertyViolation:
        raise
      except Exception as e:
        raise PropertyViolation("%s raised %s: %s" % (where, type(e).__name__, e), "C29:raised")
    stats.case(case, interleaved and len(insts) >= 2, ["base_" + case["base"], "instances_%d" % min(len(insts), 4)])

  def fail(self, stats, case, interleaved, msg):
    stats.case(case, interleaved, ["base_" + case["base"]])
    self.violation(stats, msg, "C29:shared-between-instances")


PROP = C29
