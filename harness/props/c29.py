"""C29 - thread-safe attribute values belong to their instance."""
from hypothesis import strategies as st

from ..run import Prop
from ..common import PropertyViolation

ATTRS = ["alpha", "beta", "gamma"]


@st.composite
def history(draw):
  nattr = draw(st.integers(1, 3))
  base = draw(st.sampled_from(["ThreadSafeAttributes", "ActiveObjectWithAttributes", "two_classes"]))
  n = draw(st.integers(2, 12))
  ops = []
  created = 0
  for _ in range(n):
    k = draw(st.sampled_from(["new", "assign", "assign", "read", "read", "augment"]))
    if k == "new" or created == 0:
      ops.append(["new", draw(st.integers(0, 1))])
      created += 1
    else:
      inst = draw(st.integers(0, created - 1))
      attr = draw(st.integers(0, nattr - 1))
      if k == "read":
        ops.append(["read", inst, attr])
      else:
        ops.append([k, inst, attr, draw(st.integers(-5, 5))])
  return {"nattr": nattr, "base": base, "ops": ops}


class C29(Prop):
  id = "C29"
  quick_examples = 600
  thorough_examples = 6000
  rule = ("Hypothesis-generated histories: a freshly defined class (subclass of "
          "ThreadSafeAttributes or ActiveObjectWithAttributes, or two sibling classes with the same "
          "attribute names) with 1-3 names in _attributes, then 2-12 operations from: create an "
          "instance, assign an attribute on an instance, augment (+=) it, read it. Oracle: a dict "
          "keyed by (instance, attribute) that defaults to 0: every read returns the model value of "
          "THAT instance. Non-trivial: >=2 instances exist and an assignment to one happens between "
          "two reads of another; distinct = distinct case digests.")
  assumptions = ["single-threaded; the statements live in this real source file (miros inspects the "
                 "caller's source line)"]

  def strategy(self, tier):
    return history()

  def check(self, case, stats):
    import miros
    names = ATTRS[:case["nattr"]]
    if case["base"] == "ActiveObjectWithAttributes":
      bases = [(miros.ActiveObjectWithAttributes,)] * 2
    else:
      bases = [(miros.ThreadSafeAttributes,)] * 2
    k0 = type("VfHolder0", bases[0], {"_attributes": list(names)})
    k1 = type("VfHolder1", bases[1], {"_attributes": list(names)}) if case["base"] == "two_classes" else k0
    klasses = [k0, k1]
    insts, model = [], {}
    last_read, interleaved = {}, False
    for idx, op in enumerate(case["ops"]):
      where = "op %d %s" % (idx, op)
      try:
        if op[0] == "new":
          insts.append(klasses[op[1]]())
          continue
        o, name = insts[op[1]], names[op[2]]
        key = (op[1], name)
        if op[0] == "assign":
          setattr(o, name, op[3])
          model[key] = op[3]
        elif op[0] == "augment":
          # written out per name so that miros sees a real '+=' source line
          if name == "alpha":
            o.alpha += op[3]
          elif name == "beta":
            o.beta += op[3]
          else:
            o.gamma += op[3]
          model[key] = model.get(key, 0) + op[3]
        if op[0] in ("assign", "augment"):
          for k2 in last_read:
            if k2[0] != op[1]:
              last_read[k2] = "touched"
        if op[0] == "read":
          got = getattr(o, name)
          if last_read.get(key) == "touched":
            interleaved = True
          last_read[key] = "read"
          want = model.get(key, 0)
          if got != want:
            return self.fail(stats, case, interleaved, "%s: instance %d reads %s == %r, expected %r "
                             "(instances: %d)" % (where, op[1], name, got, want, len(insts)))
      except PropertyViolation:
        raise
      except Exception as e:
        raise PropertyViolation("%s raised %s: %s" % (where, type(e).__name__, e), "C29:raised")
    stats.case(case, interleaved and len(insts) >= 2, ["base_" + case["base"], "instances_%d" % min(len(insts), 4)])

  def fail(self, stats, case, interleaved, msg):
    stats.case(case, interleaved, ["base_" + case["base"]])
    self.violation(stats, msg, "C29:shared-between-instances")


PROP = C29
