"""C29 - thread-safe attribute values belong to their instance."""
from hypothesis import strategies as st

from ..run import Prop
from ..common import PropertyViolation

ATTRS = ["alpha", "beta", "gamma"]


@st.composite
def history(draw):
  nattr = draw(st.integers(1, 3))
  base = draw(st.sampled_from(["ThreadSafeAttributes", "ActiveObjectWithAttributes", "two_classes"]))
  n = draw(st.integers(2, 14))
  ops = [["new", 0], ["new", draw(st.integers(0, 1))]]
  created = 2
  for _ in range(n):
    k = draw(st.sampled_from(["new", "assign", "assign", "read", "read", "read", "augment", "augment_from",
                              "discard", "subclass"]))
    if k == "new":
      ops.append(["new", draw(st.integers(0, 1))])
      created += 1
    elif k == "subclass":
      # a class defined late - after instances of its parent were assigned - inheriting or re-listing
      # the attribute names; its new instance starts from 0 like any other
      ops.append(["subclass", draw(st.integers(0, 1)), draw(st.booleans())])
      created += 1
    else:
      inst = draw(st.integers(0, created - 1))
      attr = draw(st.integers(0, nattr - 1))
      if k == "discard":
        ops.append(["discard", inst])      # the instance is dropped and garbage collected
        for _ in range(3):
          ops.append(["new", draw(st.integers(0, 1))])
          created += 1
      elif k == "read":
        ops.append(["read", inst, attr])
      elif k == "augment_from":
        ops.append([k, inst, attr, draw(st.integers(0, created - 1))])
      else:
        ops.append([k, inst, attr, draw(st.integers(-5, 5))])
  return {"nattr": nattr, "base": base, "ops": ops,
          "falsy": draw(st.integers(0, 3)) == 0}      # instances that are falsy (container-like classes)


class C29(Prop):
  id = "C29"
  quick_examples = 600
  thorough_examples = 6000
  rule = ("Hypothesis-generated histories: a freshly defined class (subclass of "
          "ThreadSafeAttributes or ActiveObjectWithAttributes, or two sibling classes with the same "
          "attribute names) with 1-3 names in _attributes, then 2-12 operations from: create an "
          "instance, assign an attribute on an instance, augment (+=) it by a number or by the same attribute "
          "of another instance (a.x += b.x), read it, define a subclass late (inheriting or re-listing the names) and "
          "create its first instance, discard an instance "
          "(dropped and garbage collected, then a new one is created - possibly at the same address); "
          "in a quarter of the cases the classes make their instances falsy (__len__ / __bool__). Oracle: a dict "
          "keyed by (instance, attribute) that defaults to 0: every read returns the model value of "
          "THAT instance, and after every assignment every attribute of every live instance is read "
          "back and compared. Non-trivial: an assignment to one instance is made while another live "
          "instance holds a different non-zero value of the same attribute; distinct = distinct case digests.")
  assumptions = ["single-threaded; the statements live in this real source file (miros inspects the "
                 "caller's source line)"]

  def strategy(self, tier):
    return history()

  def check(self, case, stats):
    import miros
    names = ATTRS[:case["nattr"]]
    if case["base"] == "ActiveObjectWithAttributes":
      bases = [(miros.ActiveObjectWithAttributes,)] * 2
    else:
      bases = [(miros.ThreadSafeAttributes,)] * 2
    body0, body1 = {"_attributes": list(names)}, {"_attributes": list(names)}
    if case.get("falsy") and case["base"] != "ActiveObjectWithAttributes":
      body0["__len__"] = lambda self: 0
      body1["__bool__"] = lambda self: False
    k0 = type("VfHolder0", bases[0], body0)
    k1 = type("VfHolder1", bases[1], body1) if case["base"] == "two_classes" else k0
    klasses = [k0, k1]
    insts, model = [], {}
    o = None
    interleaved = False
    for idx, op in enumerate(case["ops"]):
      where = "op %d %s" % (idx, op)
      try:
        if op[0] == "new":
          fresh = klasses[op[1]]()
          insts.append(fresh)
          # a brand-new instance reads 0 for every attribute (freshly allocated objects often
          # reuse the address of a discarded one)
          for nm in names:
            v = getattr(fresh, nm)
            if v != 0:
              fresh = None
              return self.fail(stats, case, True, "%s: a new instance reads %s == %r before any assignment "
                               "(instances so far: %d)" % (where, nm, v, len(insts)))
          fresh = None
          continue
        if op[0] == "subclass":
          parent = klasses[op[1]]
          late = type("VfLate%d" % idx, (parent,), {"_attributes": list(names)} if op[2] else {})
          fresh = late()
          insts.append(fresh)
          for nm in names:
            v = getattr(fresh, nm)
            if v != 0:
              fresh = None
              return self.fail(stats, case, True, "%s: a new instance of a class defined after its parent's "
                               "instances were assigned reads %s == %r before any assignment" % (where, nm, v))
          fresh = None
          continue
        if op[0] == "discard":
          if insts[op[1]] is not None:
            insts[op[1]] = None
            o = None                 # no lingering reference from the previous operation
            import gc
            gc.collect()
            # many fresh objects: one of them almost surely lands where the discarded one was
            crowd = [k_() for k_ in klasses for _ in range(40)]
            for c_ in crowd:
              for nm in names:
                v = getattr(c_, nm)
                if v != 0:
                  crowd = c_ = None
                  return self.fail(stats, case, True, "%s: a new instance, created after another was "
                                   "garbage collected, reads %s == %r before any assignment" % (where, nm, v))
            crowd = c_ = None
          continue
        if insts[op[1]] is None:
          continue
        o, name = insts[op[1]], names[op[2]]
        key = (op[1], name)
        if op[0] == "assign":
          setattr(o, name, op[3])
          model[key] = op[3]
        elif op[0] == "augment":
          # written out per name so that miros sees a real '+=' source line
          if name == "alpha":
            o.alpha += op[3]
          elif name == "beta":
            o.beta += op[3]
          else:
            o.gamma += op[3]
          model[key] = model.get(key, 0) + op[3]
        elif op[0] == "augment_from":
          # the right-hand side reads the same attribute of (possibly) another instance, on one line
          o2 = insts[op[3]]
          if o2 is None:
            continue
          if name == "alpha":
            o.alpha += o2.alpha
          elif name == "beta":
            o.beta += o2.beta
          else:
            o.gamma += o2.gamma
          o2 = None
          model[key] = model.get(key, 0) + model.get((op[3], name), 0)
        if op[0] in ("assign", "augment", "augment_from"):
          # discriminating: another live instance holds a different value of this attribute
          for j, other in enumerate(insts):
            if other is not None and j != op[1] and model.get((j, name), 0) != model.get(key, 0) \
               and model.get((j, name), 0) != 0:
              interleaved = True
          other = None
        if op[0] == "read":
          got = getattr(o, name)
          want = model.get(key, 0)
          if got != want:
            return self.fail(stats, case, interleaved, "%s: instance %d reads %s == %r, expected %r "
                             "(instances: %d)" % (where, op[1], name, got, want, len(insts)))
        else:
          # after every change, EVERY attribute of EVERY live instance still reads its own value
          o = None
          for j in range(len(insts)):
            if insts[j] is None:
              continue
            for nm in names:
              got = getattr(insts[j], nm)
              want = model.get((j, nm), 0)
              if got != want:
                return self.fail(stats, case, interleaved, "%s: afterwards instance %d reads %s == %r, expected %r "
                                 "(instances: %d)" % (where, j, nm, got, want, len(insts)))
      except PropertyViolation:
        raise
      except Exception as e:
        raise PropertyViolation("%s raised %s: %s" % (where, type(e).__name__, e), "C29:raised")
    stats.case(case, interleaved and len(insts) >= 2, ["base_" + case["base"], "instances_%d" % min(len(insts), 4)])

  def fail(self, stats, case, interleaved, msg):
    stats.case(case, interleaved, ["base_" + case["base"]])
    self.violation(stats, msg, "C29:shared-between-instances")


PROP = C29
