"""C14 - queued charts dispatch posted events in deque order, one per step."""
from ..run import Prop
from ..common import PropertyViolation, HarnessBound
from .. import queued, hsmcheck


def brief(ids):
  return ids if len(ids) <= 12 else "%s ... (%d ids) ... %s" % (ids[:5], len(ids), ids[-5:])


class C14(Prop):
  id = "C14"
  quick_examples = 800
  thorough_examples = 12000
  kinds = ("post_fifo", "post_fifo", "post_lifo", "next_rtc", "next_rtc", "next_rtc",
           "complete_circuit")
  action_kinds = ("post_fifo", "post_lifo", "post_lifo")
  rule = ("Hypothesis-generated histories on a real HsmWithQueues: a generated chart whose "
          "handlers post_fifo/post_lifo from entry/exit/init/user-signal clauses (bounded by a "
          "budget so chains terminate) x up to 3 posts made before start_at x a list of up to 25 operations from "
          "post_fifo, post_lifo, next_rtc, complete_circuit; every event carries a unique id. Oracle: a "
          "model double-ended queue driven by the same operations, with the handler-made posts "
          "placed where the reference chart model says the clause runs; after every operation "
          "the ids dispatched (one dispatch call per step) equal the model's pops, each id at "
          "most once, next_rtc dispatches exactly one event iff the model queue is non-empty, "
          "and after complete_circuit a further next_rtc dispatches nothing; some histories post the "
          "same Event object twice, and one in eight is a long circuit (255-420 queued events whose "
          "handlers post up to 700 follow-ups). Non-trivial: the "
          "history contains >=1 handler-made lifo post that was later dispatched; distinct = "
          "distinct case digests.")
  assumptions = [
    "a step is observed as one call of chart.dispatch (wrapped on the instance)",
    "histories stay below the queue capacity (overflow is C16's subject)",
    "cases whose entry/exit/init order already differs from the model are counted as "
    "excluded (C01 domain), since handler-made posts would then legitimately move",
  ]

  def strategy(self, tier):
    return queued.history(kinds=self.kinds, action_kinds=self.action_kinds, bulk=True, pre=True)

  def compare_common(self, o, exp_dispatched, seen, where):
    if o.dispatched != exp_dispatched:
      raise PropertyViolation("%s: dispatched ids %s, model deque gives %s" % (
        where, brief(o.dispatched), brief(exp_dispatched)), self.id + ":order")
    # equality with the model's pops also gives "each posted event at most once"

  def check(self, case, stats):
    spec = case["spec"]
    budget = case.get("budget", 30)
    model = queued.QModel(spec, budget=budget, bounded=bool(case.get("at_capacity")))
    try:
      sink = []

      def setup(chart, rt):
        if case.get("live"):
          chart.live_spy = case["live"] in ("spy", "both")
          chart.live_trace = case["live"] in ("trace", "both")
          chart.register_live_spy_callback(sink.append)
          chart.register_live_trace_callback(sink.append)
      real = queued.RealQueued(case, budget=budget, setup=setup)
      for op in case.get("pre_ops") or ():
        if op[0] == "recall":
          model.d.recall()
        else:
          model.external(op)
        self.real_call(lambda: real.apply(op), "before start_at: %s" % op)
      model.start(case["start"])
      o = self.real_call(real.start, "start_at")
      if o.dispatched:
        raise PropertyViolation("start_at dispatched events %s" % o.dispatched, self.id + ":start")
      seen = set()
      handler_lifo = set()
      nontrivial = False
      classes = []
      self.after_op(o, model, real, "start_at", stats)
      for idx, op in enumerate(case["ops"]):
        where = "op %d %s" % (idx, op)
        k = op[0]
        exp = []
        desync = False
        nact = len(model.actlog)
        if k == "bulk_post":
          classes.append("bulk")
        if k not in ("recall", "next_rtc", "complete_circuit"):
          model.external(op)
        elif k == "recall":
          exp_recall = self.model_recall(model)
        elif k == "next_rtc":
          r = model.next_rtc()
          if r is not None:
            exp.append(r[0][0])
        elif k == "complete_circuit":
          while True:
            r = model.next_rtc()
            if r is None:
              break
            exp.append(r[0][0])
        if model.d.overflowed:
          stats.exclude("queue_capacity_reached(C16 domain)")
          break
        for a in model.actlog[nact:]:
          if a[0] == "post_lifo":
            handler_lifo.add(a[1])
        o = self.real_call(lambda: real.apply(op), where)
        mact = model.actlog[nact:]
        if [a[0] for a in o.actlog] != [a[0] for a in mact]:
          # handler-side actions ran in another order than the model predicts: a
          # transition-order fault (C01 domain), after which posts legitimately move
          stats.exclude("desync_actions(C01 domain)")
          desync = True
        if desync:
          break
        self.compare_actions(o.actlog, mact, where)
        self.compare_common(o, exp, seen, where)
        if any(i in handler_lifo for i in exp):
          nontrivial = True
        if k == "complete_circuit":
          probe = self.real_call(lambda: real.apply(["next_rtc"]), where)
          if probe.dispatched:
            raise PropertyViolation("%s: complete_circuit returned with events still queued "
                                    "(next_rtc dispatched %s)" % (where, probe.dispatched),
                                    self.id + ":circuit")
        if k == "recall":
          self.check_recall(o, exp_recall, where)
        self.after_op(o, model, real, where, stats)
        classes.append("op_" + k)
      if handler_lifo:
        classes.append("handler_lifo_post")
      nontrivial, classes = self.finish(case, model, nontrivial, classes)
      stats.case(case, nontrivial, classes)
    except HarnessBound as e:
      raise PropertyViolation("history did not terminate: %s" % e, self.id + ":hang")

  def real_call(self, fn, where):
    try:
      return fn()
    except HarnessBound:
      raise
    except Exception as e:
      raise PropertyViolation("%s raised %s: %s" % (where, type(e).__name__, e),
                              self.id + ":raised")

  def model_recall(self, model):
    return model.d.recall()

  def compare_actions(self, real, model, where):
    pass

  def finish(self, case, model, nontrivial, classes):
    return nontrivial, classes

  def check_recall(self, o, exp, where):
    pass

  def after_op(self, o, model, real, where, stats):
    pass


PROP = C14
