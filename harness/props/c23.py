"""C23 - state_name and state_fn always describe the current state."""
from hypothesis import strategies as st

from ..run import Prop
from ..common import PropertyViolation
from .. import chartgen, hsmcheck
from ..hsmcheck import name_of
from .c01 import y_case


class C23(Prop):
  id = "C23"
  quick_examples = 1200
  thorough_examples = 15000
  rule = ("Hypothesis-generated chart x start state x event list on every host (plain, instrumented, "
          "queued with instrumentation on/off; decorated or not). Oracle after start_at and after every step: state_name equals "
          "the reference model's current state name; state_fn is that state's handler or the "
          "function it decorates; on an instrumented queued chart current_state() returns the same "
          "name. Non-trivial: the history contains a step that changes the current state; distinct "
          "= distinct case digests.")
  assumptions = [
    "steps whose entry/exit order or offers already differ from the model are not examined "
    "(C01/C02 domain)",
  ]

  def strategy(self, tier):
    hosts = st.sampled_from(["plain", "instr", "queued", "queued_off"])
    base = st.one_of(chartgen.chart_case(max_events=10), y_case())
    return st.tuples(base, hosts).map(lambda t: dict(t[0], host=t[1]))

  def probe(self, chart, rt, model, where, case):
    i = model.cur
    want = name_of(i)
    if chart.state_name != want:
      raise PropertyViolation("%s: state_name is %r, current state is %s" % (
        where, chart.state_name, want), "C23:state_name")
    fn = chart.state_fn
    if not (fn is rt.fns[i] or fn is rt.inner[i] or fn == rt.fns[i]):
      raise PropertyViolation("%s: state_fn is %r, not the handler of %s" % (
        where, getattr(fn, "__name__", fn), want), "C23:state_fn")
    if case["host"].startswith("queued") and getattr(chart, "instrumented", False):
      cs = chart.current_state()
      if cs != want:
        raise PropertyViolation("%s: current_state() is %r, current state is %s" % (
          where, cs, want), "C23:current_state")
      return True
    return False

  def check(self, case, stats):
    changed = [False]
    classes = ["host_" + case["host"]]

    def on_step(rep, model, rt, chart):
      if rep.res["from"] != rep.res["to"]:
        changed[0] = True
      if self.probe(chart, rt, model, "after event %d (%s)" % (rep.index, rep.sig), case):
        classes.append("current_state_checked")

    reports, start, model, rt, chart = hsmcheck.run_case(
      case, decorate=case["spec"]["spy"], on_step=on_step)
    # run_case compares state_name itself for C01/C03; repeat its verdict here as ours
    for rep in [start] + reports:
      if rep.aspect in ("start", "order", "bubble") and rep.msg and "rests in" in rep.msg:
        raise PropertyViolation(rep.msg.replace("rests in", "state_name says"), "C23:state_name")
      if rep.aspect == "bubble" and rep.msg and "moved the chart" in rep.msg:
        raise PropertyViolation(rep.msg, "C23:state_name")
      if rep.aspect:
        stats.exclude("desync_by_%s" % rep.aspect)
    if start.aspect is None:
      m0 = type(model)(case["spec"])
      m0.start(case["start"])
      # start_at bookkeeping (re-run on a fresh chart so that later steps do not mask it)
      rt2 = chartgen.build(case["spec"], decorate=case["spec"]["spy"])
      c2 = hsmcheck.make_host(case["host"])
      c2.start_at(rt2.fns[case["start"]])
      self.probe(c2, rt2, m0, "after start_at(%s)" % name_of(case["start"]), case)
    stats.case(case, changed[0], classes)


PROP = C23
