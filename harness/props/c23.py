"""C23 - state_name and state_fn always describe the current state."""
from hypothesis import strategies as st

from ..run import Prop
from ..common import PropertyViolation
from .. import chartgen, hsmcheck
from ..hsmcheck import name_of
from .c01 import y_case


class C23(Prop):
  id = "C23"
  quick_examples = 1200
  thorough_examples = 15000
  rule = ("Hypothesis-generated chart x start state x event list on every host (plain, instrumented, "
          "queued with instrumentation on/off, a named and an anonymous started ActiveObject under the "
          "deterministic scheduler; decorated, not decorated or only partly decorated; in a quarter of the charts several state "
          "functions share one __name__). Oracle after start_at and after every step: state_name equals "
          "the reference model's current state name; state_fn is that state's handler or the "
          "function it decorates; on an instrumented queued chart current_state() returns the same "
          "name. Non-trivial: the history contains a step that changes the current state; distinct "
          "= distinct case digests.")
  assumptions = [
    "steps whose entry/exit order or offers already differ from the model are not examined "
    "(C01/C02 domain)",
  ]

  def strategy(self, tier):
    hosts = st.sampled_from(["plain", "instr", "queued", "queued_off", "queued", "ao", "ao_anonymous"])
    base = st.one_of(chartgen.chart_case(max_events=10), y_case())

    def finish(t):
      case, host, mod = dict(t[0], host=t[1]), t[1], t[2]
      n = case["spec"]["n"]
      if mod and n >= 2:
        # different state functions may carry the same __name__ (one builder called twice)
        case["spec"] = dict(case["spec"], names=["vs%d" % (i % mod) for i in range(n)])
      if t[3] and case["spec"]["spy"]:
        # a chart on which only some state functions wear the decorator
        case["spec"] = dict(case["spec"], spy=t[3])
      return case
    return st.tuples(base, hosts, st.sampled_from([0, 0, 0, 1, 2, 3]),
                     st.sampled_from([None, None, None, "mixed_even", "mixed_odd"])).map(finish)

  def probe(self, chart, rt, model, where, case):
    i = model.cur
    want = name_of(i)
    if chart.state_name != want:
      raise PropertyViolation("%s: state_name is %r, current state is %s" % (
        where, chart.state_name, want), "C23:state_name")
    fn = chart.state_fn
    if not (fn is rt.fns[i] or fn is rt.inner[i] or fn == rt.fns[i]):
      raise PropertyViolation("%s: state_fn is %r, not the handler of %s" % (
        where, getattr(fn, "__name__", fn), want), "C23:state_fn")
    if (case["host"].startswith("queued") or case["host"].startswith("ao")) and getattr(chart, "instrumented", False):
      cs = chart.current_state()
      if cs != want:
        raise PropertyViolation("%s: current_state() is %r, current state is %s" % (
          where, cs, want), "C23:current_state")
      return True
    return False

  def check_ao(self, case, stats):
    """The chart on a started ActiveObject (named, or anonymous so that start_at invents a name)."""
    from .. import detsched
    from ..refmodel import Model
    from miros.event import Event, signals
    ao = detsched.install()
    detsched.reset(ao)
    files = detsched.miros_files()
    spec = case["spec"]
    rt = chartgen.build(spec, decorate=spec["spy"])
    model = Model(spec)
    box = {"changed": False}

    def body(s):
      klass = chartgen.bounded(ao.ActiveObject)
      chart = klass() if case["host"] == "ao_anonymous" else klass(name="vfnamed")
      model.start(case["start"])
      chart.start_at(rt.fns[case["start"]])
      s.quiesce()
      self.probe(chart, rt, model, "after start_at(%s) on an %s active object" % (
        name_of(case["start"]), "anonymous" if case["host"] == "ao_anonymous" else "named"), case)
      for k, sig in enumerate(case["events"]):
        res = model.step(sig)
        if res["from"] != res["to"]:
          box["changed"] = True
        chart.post_fifo(Event(signal=signals[sig]))
        s.quiesce()
        if chart.state_name != name_of(model.cur):
          # either C01/C02 territory or ours: judge only the bookkeeping against the chart itself
          pass
        self.probe(chart, rt, model, "after event %d (%s) on an active object" % (k, sig), case)
    s = detsched.Scheduler(schedule=[], step_limit=400000, trace_files=[files["activeobject"]])
    try:
      detsched.guarded_run(s, body)
    except (detsched.Deadlock, detsched.StepLimit) as e:
      raise PropertyViolation("no quiescence: %s" % e, "C23:liveness")
    if s.thread_errors:
      n_, e, tb = s.thread_errors[0]
      raise PropertyViolation("thread %s died: %s: %s" % (n_, type(e).__name__, e), "C23:thread-error")
    stats.case(case, box["changed"], ["host_" + case["host"]] + (["repeated_names"] if spec.get("names") else []))

  def check(self, case, stats):
    if case["host"].startswith("ao"):
      return self.check_ao(case, stats)
    changed = [False]
    classes = ["host_" + case["host"]] + (["repeated_names"] if case["spec"].get("names") else [])

    def on_step(rep, model, rt, chart):
      if rep.res["from"] != rep.res["to"]:
        changed[0] = True
      if self.probe(chart, rt, model, "after event %d (%s)" % (rep.index, rep.sig), case):
        classes.append("current_state_checked")

    reports, start, model, rt, chart = hsmcheck.run_case(
      case, decorate=case["spec"]["spy"], on_step=on_step)
    # run_case compares state_name itself for C01/C03; repeat its verdict here as ours
    for rep in [start] + reports:
      if rep.aspect in ("start", "order", "bubble") and rep.msg and "rests in" in rep.msg:
        raise PropertyViolation(rep.msg.replace("rests in", "state_name says"), "C23:state_name")
      if rep.aspect == "bubble" and rep.msg and "moved the chart" in rep.msg:
        raise PropertyViolation(rep.msg, "C23:state_name")
      if rep.aspect:
        stats.exclude("desync_by_%s" % rep.aspect)
    if start.aspect is None:
      m0 = type(model)(case["spec"])
      m0.start(case["start"])
      # start_at bookkeeping (re-run on a fresh chart so that later steps do not mask it)
      rt2 = chartgen.build(case["spec"], decorate=case["spec"]["spy"])
      c2 = hsmcheck.make_host(case["host"])
      c2.start_at(rt2.fns[case["start"]])
      self.probe(c2, rt2, m0, "after start_at(%s)" % name_of(case["start"]), case)
    stats.case(case, changed[0], classes)


PROP = C23
