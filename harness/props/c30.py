"""C30 - singletons stay single even when first requested concurrently."""
from hypothesis import strategies as st

from ..run import Prop
from ..common import PropertyViolation
from .. import detsched

KINDS = ["fabric", "run_event", "writer", "active_object", "signal", "return_status", "slow_custom",
         "slow_custom"]


@st.composite
def first_requests(draw):
  n = draw(st.integers(2, 4))
  reqs = [draw(st.lists(st.sampled_from(KINDS), min_size=1, max_size=3)) for _ in range(n)]
  fine = st.lists(st.tuples(st.integers(0, 5), st.integers(1, 6)), max_size=80)
  return {"requests": reqs, "schedule": [list(x) for x in draw(fine)],
          "slow": draw(st.sampled_from([0.0, 0.5, 3.0, 30.0])),
          # one case in eight asks, drops every reference, collects garbage and asks again instead
          "lifetime": draw(st.integers(0, 7)) == 0,
          # the requesting threads are not threading.Thread objects (started by _thread / a C library)
          "raw": draw(st.integers(0, 2)) == 0}


class C30(Prop):
  id = "C30"
  quick_examples = 400
  thorough_examples = 5000
  rule = ("Generated schedules under the deterministic scheduler (pre-emption at every line of "
          "miros/singleton.py, miros/activeobject.py and miros/event.py; run lengths 1-6 so that "
          "switches fall between a singleton's 'is there an instance?' test and its store): every "
          "case starts from fresh singletons (no instance yet, as in a new process) and 2-4 threads "
          "(in a third of the cases OS threads started with _thread.start_new_thread, which the threading module does not count) each make 1-3 first requests from ActiveFabric(), the fabric run event "
          "(FiberThreadEvent()), the live-output writer (InstrumentionWriter()), constructing an "
          "ActiveObject (which requests all three), Signal(), ReturnStatus(), and a harness class whose construction takes 0-30 s "
          "of virtual time behind the same SingletonDecorator. Oracle: every "
          "request for one singleton, from any thread and afterwards from the body, yields the "
          "same object; Signal()/ReturnStatus() yield the import-time registry objects; an "
          "ActiveObject's fabric/writer attributes are those same objects. One case in eight instead asks for each "
          "singleton, marks it, drops every reference, collects garbage and asks again: the marked object comes back. Non-trivial: >=2 threads "
          "requested the same not-yet-created singleton and a context switch happened while one of "
          "them was inside the singleton wrapper; distinct = distinct case digests.")
  assumptions = ["'fresh process' is emulated by clearing the instance slot of the three lazily created "
                 "singletons before each case (Signal/ReturnStatus are created at import time)"]

  def strategy(self, tier):
    return first_requests()

  def check(self, case, stats):
    ao = detsched.install()
    detsched.reset(ao)
    # as in a new process: the three lazily used wrappers are made afresh (no instance, and whatever
    # else a wrapper sets up on first use is not there yet)
    for nm in ("FiberThreadEvent", "ActiveFabric", "InstrumentionWriter"):
      old = getattr(ao, nm)
      if hasattr(old, "klass"):
        fresh = type(old)(old.klass)
        detsched.virtualize_locks(fresh)
        setattr(ao, nm, fresh)
    import miros.event as ev
    files = detsched.miros_files()
    seen = dict((k, []) for k in ("fabric", "run_event", "writer", "signal", "return_status", "slow_custom"))
    from miros.singleton import SingletonDecorator
    built = []

    class VfSlow:
      """A class whose construction takes (virtual) time, behind the library's singleton wrapper."""
      def __init__(self):
        built.append(1)
        ao.time.sleep(case.get("slow", 3.0))
    slow_singleton = SingletonDecorator(VfSlow)
    detsched.virtualize_locks(slow_singleton)
    info = {"inside": 0}

    def lifetime_body(s):
      """Ask, mark the object, drop every reference to it, collect garbage, ask again: the marked
      object comes back ("one shared instance for the life of the process")."""
      import gc
      askers = [("fabric", ao.ActiveFabric), ("run_event", ao.FiberThreadEvent), ("writer", ao.InstrumentionWriter),
                ("signal", ev.Signal), ("return_status", ev.ReturnStatus), ("slow_custom", slow_singleton)]
      for round_ in range(2):
        for k, ask in askers:
          token = "vf-%s-%d" % (k, round_)
          o = ask()
          o._vf_mark = token
          o = None
          # (one full collection per case; the young generation otherwise - a full collection of
          # a long-running check process takes seconds)
          gc.collect() if (round_ == 0 and k == "fabric") else gc.collect(0)
          back = getattr(ask(), "_vf_mark", None)
          if back != token:
            info["lifetime_failure"] = (k, token, back)
            return

    def body(s):
      if case.get("lifetime"):
        return lifetime_body(s)
      def worker(reqs):
        for r in reqs:
          if r == "fabric":
            seen["fabric"].append(ao.ActiveFabric())
          elif r == "run_event":
            seen["run_event"].append(ao.FiberThreadEvent())
          elif r == "writer":
            seen["writer"].append(ao.InstrumentionWriter())
          elif r == "signal":
            seen["signal"].append(ev.Signal())
          elif r == "return_status":
            seen["return_status"].append(ev.ReturnStatus())
          elif r == "slow_custom":
            seen["slow_custom"].append(slow_singleton())
          else:
            c = ao.ActiveObject(name="x")
            seen["fabric"].append(c.fabric)
            seen["writer"].append(c.writer)
            seen["run_event"].append(c.fabric.fabric_task_event)
      ths = [ao.Thread(target=worker, args=(r,), name="w%d" % k) for k, r in enumerate(case["requests"])]

      def on_switch(prev, nxt):
        if prev.name.startswith("w") and prev.real is not None:
          import sys
          f = sys._current_frames().get(prev.real.ident)
          while f is not None:
            if f.f_code.co_filename == files["singleton"]:
              info["inside"] += 1
              break
            f = f.f_back
      s.on_switch = on_switch
      for t in ths:
        t.start()
      for t in ths:
        t.join()
      seen["fabric"].append(ao.ActiveFabric())
      seen["run_event"].append(ao.FiberThreadEvent())
      seen["writer"].append(ao.InstrumentionWriter())
      seen["signal"].append(ev.Signal())
      seen["return_status"].append(ev.ReturnStatus())
      seen["signal"].append(ev.signals)
      seen["return_status"].append(ev.return_status)

    s = detsched.Scheduler(schedule=case["schedule"], step_limit=300000, raw_threads=bool(case.get("raw")),
                           trace_files=[files["singleton"], files["activeobject"], files["event"]])
    try:
      detsched.guarded_run(s, body)
    except (detsched.Deadlock, detsched.StepLimit) as e:
      raise PropertyViolation("no termination: %s" % e, "C30:liveness")
    if s.thread_errors:
      name, e, tb = s.thread_errors[0]
      raise PropertyViolation("thread %s died: %s: %s" % (name, type(e).__name__, e), "C30:thread-error")
    if case.get("lifetime"):
      stats.case(case, True, ["lifetime_probe"])
      if info.get("lifetime_failure"):
        k, token, back = info["lifetime_failure"]
        raise PropertyViolation("the %s singleton was marked %r; after every reference to it was dropped and garbage "
                                "was collected, the next request gave an object marked %r" % (k, token, back),
                                "C30:not-for-life")
      return
    shared = set()
    for k in ("fabric", "run_event", "writer"):
      askers = sum(1 for r in case["requests"] if any(x in (k, "active_object") for x in r))
      if askers >= 2:
        shared.add(k)
    stats.case(case, bool(shared) and info["inside"] > 0,
               ["switch_inside_wrapper" if info["inside"] else "no_switch_inside_wrapper"] +
               (["threads_unknown_to_threading_module"] if case.get("raw") else []))
    for k, objs in seen.items():
      ids = set(id(o) for o in objs)
      if len(ids) > 1:
        self.violation(stats, "%d different %s singletons were handed out to requests %s" % (
          len(ids), k, case["requests"]), "C30:two-instances")
        return


PROP = C30
