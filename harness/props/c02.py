"""C02 - events bubble outward; handled or ignored events change nothing."""
from hypothesis import strategies as st

from ..common import PropertyViolation
from .. import chartgen, hsmcheck
from .c01 import C01


class C02(C01):
  id = "C02"
  quick_examples = 1500
  thorough_examples = 20000
  aspects = ("bubble", "error")
  rule = ("Hypothesis-generated charts with per-state reactions handle / transition / decline "
          "(returns UNHANDLED) / counter guard / absent, x start state x event list x host "
          "(plain, instrumented, queued on/off, decorated or not); some guards consult "
          "chart.is_in() before answering and is_in/child_state queries are interleaved between "
          "events. Oracle: the ordered list of "
          "states that were offered the user signal equals the reference model's path from the "
          "current state to the answering state; if the answer is 'handled' or nobody answers, "
          "no entry/exit/init action runs and the resting state is unchanged. Non-trivial: a "
          "step with >=1 decline, or a pass-through of >=2 levels, or an event ignored from "
          "depth >=3; distinct = distinct (chart, start, events) digests.")
  assumptions = [
    "the processor's own EMPTY/SEARCH probes are not counted as offers",
    "steps after a C01-only mismatch (wrong exit/entry order) are not examined",
  ]

  def strategy(self, tier):
    hosts = st.sampled_from(["plain", "instr", "queued", "queued_off"])
    base = chartgen.chart_case(max_events=12, with_is_in=True, with_queries=True)
    return st.tuples(base, hosts).map(lambda t: dict(t[0], host=t[1]))

  def classify(self, case, reports, model):
    classes, nontrivial = [], False
    for rep in reports:
      res = rep.res
      outs = [o for _, o in res["offers"]]
      classes.append("kind_" + res["kind"])
      if "decline" in outs:
        classes.append("declined")
        nontrivial = True
      if len(outs) >= 3:
        classes.append("bubbled_ge2_levels")
        nontrivial = True
      if res["kind"] == "ignored" and len(outs) >= 3:
        classes.append("ignored_from_depth_ge3")
      if res["kind"] == "handled" and len(outs) >= 2:
        classes.append("handled_by_ancestor")
    classes.append("host_" + case.get("host", "instr"))
    return nontrivial, classes

  def extra(self, tier, seed, shard, nshards, stats):
    return ()


PROP = C02
