"""C03 - start_at enters the enclosing states outside-in and follows initial transitions."""
import itertools
from hypothesis import strategies as st

from ..common import PropertyViolation
from .. import chartgen, hsmcheck
from ..chartgen import descendants
from .c01 import C01, y_case


class C03(C01):
  id = "C03"
  quick_examples = 1500
  thorough_examples = 20000
  rule = ("Hypothesis-generated charts (random forests and deep two-branch charts with chained "
          "multi-level initial transitions) x every kind of host x start state; thorough adds "
          "every forest of <=5 states x every init assignment x every start state. Oracle: "
          "reference model: entries from the outermost enclosing state inward to S, INIT on S, "
          "then each init target's path entered in order; exactly these entry/init actions, no "
          "EXIT action at all, resting state = last init target. Half of the cases start the same chart object "
          "a second time at another state (the whole path is entered again); a quarter have init "
          "actions that return no status (tolerated as 'no initial transition'); a quarter have entry actions that "
          "build and start a second chart object of the same class while the first start is under way (each chart "
          "enters exactly its own states). Non-trivial: depth(S) >= 2 or "
          "init chain >= 1; distinct = distinct (chart, start) digests.")
  assumptions = [
    "observes handler-side action logs and chart.state_name only",
    "entry/init invocations of states that have no such clause are not compared",
  ]

  def strategy(self, tier):
    hosts = st.sampled_from(["plain", "instr", "queued", "queued_off"])
    base = st.one_of(chartgen.chart_case(max_events=0), y_case())
    def finish(t):
      case = dict(t[0], host=t[1], events=[])
      n = case["spec"]["n"]
      # start the same chart object a second time somewhere else (everything is entered again)
      case["restart"] = t[2] % n if t[3] else None
      if t[4]:
        # init actions that return no status are tolerated as "no initial transition"
        case["spec"] = dict(case["spec"], initnone=[(t[2] + i) % 3 == 0 for i in range(n)])
      if t[5]:
        # entry actions that build and start a second chart object while this start is under way
        acts = dict(case["spec"].get("acts") or {})
        for i in range(n):
          if case["spec"]["entry"][i] and (i + t[2]) % 2 == 0:
            acts.setdefault("%d:ENTRY" % i, []).append(["start_other"])
        case["spec"] = dict(case["spec"], acts=acts)
      if t[6] and n >= 2 and not t[5]:
        # different state functions that answer to the same __name__ (closure-built states that
        # were never renamed): what counts is the function, not what it is called
        case["spec"] = dict(case["spec"], names=["vs%d" % (i % t[6]) for i in range(n)])
      return case
    return st.tuples(base, hosts, st.integers(0, 50), st.booleans(), st.integers(0, 3).map(lambda x: x == 0),
                     st.integers(0, 3).map(lambda x: x == 0), st.sampled_from([0, 0, 0, 1, 2, 3])).map(finish)

  def check(self, case, stats):
    case = dict(case, events=[])
    reports, start, model, rt, chart = hsmcheck.run_case(case, decorate=case["spec"]["spy"])
    seq = start.res["seq"]
    chain = sum(1 for x in seq if x[0] == "INIT") - 1
    depth = model.depth(case["start"])
    classes = ["depth_%d" % min(depth, 8), "initchain_%d" % min(chain, 5),
               "host_" + case.get("host", "instr")]
    key = {"spec": case["spec"], "start": case["start"], "host": case.get("host")}
    stats.case(key, depth >= 2 or chain >= 1, classes)
    if start.aspect in ("start", "error"):
      raise PropertyViolation(start.msg, "C03:" + start.aspect)
    if any(x[0] == "EXIT" for x in rt.log):
      raise PropertyViolation("start_at ran an exit action: %s" % (rt.log,), "C03:exit")
    if rt.side_failures:
      raise PropertyViolation(rt.side_failures[0], "C03:start")
    if case.get("restart") is not None and start.aspect is None:
      # the same chart object is started again: the whole path is entered again, outside-in
      from ..hsmcheck import structural, visible, fmt, name_of
      from ..common import HarnessBound
      rt.clear()
      want = visible(case["spec"], model.start(case["restart"]))
      try:
        chart.start_at(rt.fns[case["restart"]])
      except HarnessBound as e:
        raise PropertyViolation("second start_at(%s) did not terminate" % name_of(case["restart"]), "C03:restart")
      except Exception as e:
        raise PropertyViolation("second start_at(%s) on the same chart raised %s: %s" % (
          name_of(case["restart"]), type(e).__name__, e), "C03:restart")
      got = structural(rt.log)
      if got != want or chart.state_name != name_of(model.cur):
        raise PropertyViolation("second start_at(%s) on the same chart ran [%s] and rests in %s, expected [%s] and %s" % (
          name_of(case["restart"]), fmt(got), chart.state_name, fmt(want), name_of(model.cur)), "C03:restart")

  def extra(self, tier, seed, shard, nshards, stats):
    if tier != "thorough":
      return
    idx = 0
    for parent in hsmcheck.small_forests(5):
      n = len(parent)
      choices = [[None] + descendants(parent, i) for i in range(n)]
      for init in itertools.product(*choices):
        for start in range(n):
          idx += 1
          if idx % nshards != shard:
            continue
          spec = {"n": n, "parent": parent, "init": list(init),
                  "react": [dict() for _ in range(n)], "sigs": ["VA"],
                  "entry": [True] * n, "exit": [True] * n, "initc": [True] * n,
                  "spy": bool(idx & 1), "acts": {}}
          case = {"spec": spec, "start": start, "events": [],
                  "host": ("plain", "instr", "queued", "queued_off")[idx % 4]}
          try:
            self.check(case, stats)
          except PropertyViolation as v:
            yield case, v
            return
    stats.notes.append("bounded-exhaustive: all forests <=5 states x inits x start")


PROP = C03
