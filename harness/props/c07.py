"""C07 - active-object publish/subscribe works in every configuration."""
from hypothesis import strategies as st

from ..run import Prop
from ..common import PropertyViolation
from .. import detsched, aocheck
from .c04 import schedule_st

SIGS = ["VA", "VB"]


@st.composite
def pubsub_script(draw):
  nao = draw(st.integers(1, 3))
  deco = [draw(st.booleans()) for _ in range(nao)]
  n = draw(st.integers(1, 10))
  ops, started = [], set()
  fine = False
  if nao >= 2 and draw(st.integers(0, 3)) == 0:
    # several objects make the FIRST subscription to one signal, each from its own thread, at
    # the same time: subscribe before start, then start them back to back
    sig = draw(st.sampled_from(SIGS))
    kind = draw(st.sampled_from(["fifo", "lifo"]))
    for a in range(nao):
      ops.append(["subscribe", a, sig, kind, "outside"])
    for a in range(nao):
      ops.append(["start", a])
      started.add(a)
    ops.append(["settle"])
    n = draw(st.integers(0, 3))
    fine = True
  for _ in range(n):
    k = draw(st.sampled_from(["subscribe", "subscribe", "subscribe", "publish", "publish", "publish", "start", "start",
                              "settle", "settle", "clear"]))
    a = draw(st.integers(0, nao - 1))
    where = draw(st.sampled_from(["outside", "outside", "handler"]))
    if where == "handler" and a not in started:
      where = "outside"
    if k == "subscribe":
      ops.append(["subscribe", a, draw(st.sampled_from(SIGS)), draw(st.sampled_from(["fifo", "fifo", "lifo"])), where])
    elif k == "publish":
      ops.append(["publish", a, draw(st.sampled_from(SIGS)), where])
    elif k == "start":
      if a not in started:
        started.add(a)
        ops.append(["start", a])
    elif k == "clear":
      # the fabric's registries are emptied (every object running, nothing in flight): every object
      # has to subscribe again - and one of them does, to a signal it may have held before
      for b in range(nao):
        if b not in started:
          started.add(b)
          ops.append(["start", b])
      ops.append(["settle"])
      ops.append(["clear"])
      ops.append(["subscribe", a, draw(st.sampled_from(SIGS)), draw(st.sampled_from(["fifo", "fifo", "lifo"])), where])
      ops.append(["settle"])
    else:
      ops.append(["settle"])
  for a in range(nao):
    if a not in started:
      ops.append(["start", a])
  ops.append(["settle"])
  # a final round: every object started, subscriptions settled - publications must arrive
  for sig in SIGS:
    ops.append(["publish", draw(st.integers(0, nao - 1)), sig, draw(st.sampled_from(["outside", "handler"]))])
  ops.append(["settle"])
  sched_ = draw(st.lists(st.tuples(st.integers(0, 6), st.integers(1, 9)), max_size=150)) if fine else draw(schedule_st)
  # an object may also be built with its instrumentation switched off by the constructor
  return {"deco": deco, "ops": ops, "schedule": [list(x) for x in sched_],
          "instr_off": [draw(st.integers(0, 3)) == 0 for _ in range(nao)]}


class C07(Prop):
  id = "C07"
  quick_examples = 600
  thorough_examples = 4000
  rule = ("Generated scripts under the deterministic scheduler: 1-3 ActiveObjects, each with or "
          "without the spy decorator on its states, a quarter of them built with instrumented=False; up to 10 operations from subscribe(signal, "
          "fifo/lifo; the signal given as an Event or as its number) and publish(signal) - each called either from outside (body thread) or from "
          "inside one of the object's own handlers during a step - start_at, settle and clear() of the quiet fabric (after which every object has to subscribe again), in any "
          "order (so subscriptions and publications happen before and after start, with none, one "
          "or several other objects already subscribed to the signal); the script ends by starting "
          "every object, settling, publishing every signal once more and settling. Oracle: a "
          "publication made after a subscription has taken effect (the subscribe call returned, the "
          "object was started and a settle followed) is dispatched to that object exactly once per "
          "subscription kind; an object that never subscribed to a signal never sees it; anything "
          "in between may be delivered or not but never more often than the number of its "
          "subscription kinds. Non-trivial: the script contains an undecorated object that "
          "subscribes or publishes, or a run-time subscribe to a signal another object already "
          "holds; distinct = distinct case digests. A scripted family runs 'subscribe then publish, both before start' "
          "under 18 regular schedules and requires the publication to come back under at least one (the listed finding loses it under the others).")
  assumptions = ["every object is given a name (the harness tells the objects apart by it; anonymous "
                 "objects are exercised by C18 and C23)",
                 "a publish made before its object is started is required to reach the subscriptions "
                 "that were already in effect at the publish call"]

  def strategy(self, tier):
    return pubsub_script()

  def extra(self, tier, seed, shard, nshards, stats):
    """A regular family of schedules for the narrowest race of this property: two objects make
    the first subscription to one signal from their own threads at the same moment.  Periodic
    schedules (thread i mod 3 runs q lines) for every q in 1..60, with and without a
    publication queued before start, decorated or not."""
    idx = 0
    for deco in ([False, False], [True, True]):
      for q in range(1, 61):
        for pre in ([], [["publish", 0, "VA", "outside"]]):
          idx += 1
          if idx % nshards != shard:
            continue
          case = {"deco": deco,
                  "ops": [["subscribe", 0, "VA", "fifo", "outside"], ["subscribe", 1, "VA", "fifo", "outside"]] + pre +
                         [["start", 0], ["start", 1], ["settle"], ["publish", 0, "VA", "outside"],
                          ["publish", 0, "VB", "outside"], ["settle"]],
                  "schedule": [[i % 3, q] for i in range(60)]}
          try:
            self.check(case, stats)
          except PropertyViolation as v:
            yield case, v
            return
    stats.classes["periodic_schedule_family"] = idx
    # An object's own subscribe-then-publish before its thread runs: on this tree the publication
    # can be lost when the delivery thread gets in between the two requests (the listed finding);
    # under the schedules that let the object's thread serve both requests first it does come
    # back.  It must come back under at least one of a regular family of schedules.
    fam = 0
    for deco in (False, True):
      for kind in ("fifo", "lifo"):
        for tail in ([], [["subscribe", 1, "VB", "fifo", "outside"]]):
          fam += 1
          if fam % nshards != shard:
            continue
          base = {"deco": [deco, deco], "instr_off": [False, False],
                  "ops": [["subscribe", 0, "VA", kind, "outside"], ["publish", 0, "VA", "outside"]] + tail +
                         [["start", 0], ["start", 1], ["settle"], ["publish", 0, "VA", "outside"], ["settle"]]}
          came_back = 0
          scheds = [[[i % 6, q] for i in range(120)] for q in (1, 2, 3, 5, 8, 13, 21, 34, 55, 89, 144, 400)] + \
                   [[[t, 4000]] * 6 for t in range(1, 7)]
          for sc in scheds:
            case = dict(base, schedule=sc)
            before = stats.excluded.get("known:C07:own-requests-before-start-reversed", 0)
            try:
              self.check(case, stats)
            except PropertyViolation as v:
              yield case, v
              return
            if stats.excluded.get("known:C07:own-requests-before-start-reversed", 0) == before:
              came_back += 1
          stats.classes["own_early_family_came_back"] = stats.classes.get("own_early_family_came_back", 0) + came_back
          if came_back == 0:
            case = dict(base, schedule=[], all_schedules=True)
            yield case, PropertyViolation(
              "an object subscribed (%s) and then published, both before its thread ran: the publication came back "
              "under none of %d schedules (%s charts)" % (kind, len(scheds), "decorated" if deco else "undecorated"),
              "C07:own-publication-never-returns")
            return

  def check(self, case, stats):
    ao = detsched.install()
    detsched.reset(ao)
    from miros.event import Event, signals
    files = detsched.miros_files()
    for s_ in SIGS + ["VCMD"]:
      signals.append(s_)
    rec = aocheck.Rec()
    nao = len(case["deco"])
    expect = []       # per publication: dict(id, sig, must: {ao: n}, may: {ao: n})
    flags = {"nontrivial": False, "classes": set()}

    def body(s):
      A = aocheck.make_ao_class(rec)
      charts, fns = [], []
      for a in range(nao):
        if (case.get("instr_off") or [False] * nao)[a]:
          c = A(name="ao%d" % a, instrumented=False)
          flags["classes"].add("constructed_uninstrumented")
        else:
          c = A(name="ao%d" % a)
        charts.append(c)

        def on_dispatch(chart, e):
          if e.signal_name == "VCMD":
            cmd = e.payload
            if cmd[0] == "subscribe":
              chart.subscribe(Event(signal=signals[cmd[1]]), queue_type=cmd[2])
            else:
              chart.publish(Event(signal=signals[cmd[1]], payload=cmd[2]))
        fns.append(aocheck.flat_chart(rec, decorate=case["deco"][a], on_dispatch=on_dispatch,
                                      sigs=SIGS + ["VCMD"]))
      started = set()
      called = {}      # (ao, sig, kind) -> subscribe call returned (op index)
      effective = set()  # (ao, sig, kind) in effect: called, started, then settled
      ever = set()     # (ao, sig) ever subscribed
      ever_called = []  # every subscribe call ever made (a clear() does not make earlier deliveries wrong)
      nid = [0]
      for idx, op in enumerate(case["ops"]):
        k = op[0]
        if k == "subscribe":
          _, a, sig, kind, where = op
          if not case["deco"][a]:
            flags["nontrivial"] = True
            flags["classes"].add("undecorated_subscribes")
          if a in started and any(x != a and sg == sig for (x, sg, kd) in effective):
            flags["nontrivial"] = True
            flags["classes"].add("runtime_subscribe_with_other_holder")
          ever.add((a, sig))
          if where == "handler":
            charts[a].post_fifo(Event(signal=signals["VCMD"], payload=("subscribe", sig, kind)))
          elif idx % 3 == 0:
            charts[a].subscribe(signals[sig], queue_type=kind)       # by signal number
            flags["classes"].add("subscribe_by_number")
          else:
            charts[a].subscribe(Event(signal=signals[sig]), queue_type=kind)
          called[(a, sig, kind)] = idx
          ever_called.append((a, sig, kind))
          flags["classes"].add("subscribe_%s_%s" % (where, "after_start" if a in started else "before_start"))
        elif k == "publish":
          _, a, sig, where = op
          nid[0] += 1
          if not case["deco"][a]:
            flags["nontrivial"] = True
            flags["classes"].add("undecorated_publishes")
          must, may = {}, {}
          for (x, sg, kd) in effective:
            if sg == sig:
              must[x] = must.get(x, 0) + 1
          # an object's own subscribe followed by its own publish, both before its thread runs:
          # the publication is a later one, it has to come back to the object
          own_early = [(x, sg, kd) for (x, sg, kd) in called if x == a and sg == sig and a not in started
                       and (x, sg, kd) not in effective]
          own_n = {}
          for (x, sg, kd) in own_early:
            must[x] = must.get(x, 0) + 1
            own_n[x] = own_n.get(x, 0) + 1
          own_flag = own_n
          for (x, sg, kd) in called:
            if sg == sig:
              may[x] = may.get(x, 0) + 1
          expect.append({"id": nid[0], "sig": sig, "must": must, "may": may, "op": idx, "own_early": own_flag})
          ev = Event(signal=signals[sig], payload=nid[0])
          if where == "handler" and a in started:
            charts[a].post_fifo(Event(signal=signals["VCMD"], payload=("publish", sig, nid[0])))
          else:
            charts[a].publish(ev)
          flags["classes"].add("publish_%s_%s" % (where, "after_start" if a in started else "before_start"))
        elif k == "start":
          charts[op[1]].start_at(fns[op[1]])
          started.add(op[1])
        elif k == "settle":
          s.quiesce()
          for key in called:
            if key[0] in started:
              effective.add(key)
        elif k == "clear":
          if len(started) == nao:      # (nothing is still waiting in the queue of an object that has not started)
            charts[0].fabric.clear()
            called.clear()
            effective.clear()
            flags["classes"].add("fabric_cleared")
      # subscriptions made after a publication may still catch it: widen "may" to all ever made
      for e in expect:
        for (x, sg, kd) in set(ever_called):
          if sg == e["sig"]:
            e["may"][x] = max(e["may"].get(x, 0),
                              sum(1 for (x2, sg2, kd2) in set(ever_called) if x2 == x and sg2 == sg))

    s = detsched.Scheduler(schedule=case["schedule"], step_limit=600000,
                           trace_files=[files["activeobject"]])
    try:
      detsched.guarded_run(s, body)
    except (detsched.Deadlock, detsched.StepLimit) as e:
      raise PropertyViolation("no quiescence: %s" % e, "C07:liveness")
    if s.thread_errors:
      name, e, tb = s.thread_errors[0]
      raise PropertyViolation("thread %s died: %s: %s" % (name, type(e).__name__, e), "C07:thread-error")
    stats.case(case, flags["nontrivial"], sorted(flags["classes"]))
    for e in expect:
      for a in range(nao):
        got = sum(1 for d in rec.dispatch if d["ao"] == "ao%d" % a and d["sig"] == e["sig"] and d["id"] == e["id"])
        lo, hi = e["must"].get(a, 0), max(e["must"].get(a, 0), e["may"].get(a, 0))
        own = (e.get("own_early") or {}).get(a, 0)
        if own and lo - own <= got < lo:
          # the object's own publish overtook its own earlier subscribe (both requested before its
          # thread ran): the recorded finding
          if self.violation(stats, "publication %d of %s (op %d %s) was requested by ao%d after its own subscribe(%s), both "
                            "before its thread ran, and came back %d time(s), expected %d; ops: %s" % (
                              e["id"], e["sig"], e["op"], case["ops"][e["op"]], a, e["sig"], got, lo, case["ops"]),
                            "C07:own-requests-before-start-reversed") is False:
            continue
        if not (lo <= got <= hi):
          raise PropertyViolation(
            "publication %d of %s (op %d %s) was dispatched %d time(s) to ao%d (%s), expected %s; ops: %s" % (
              e["id"], e["sig"], e["op"], case["ops"][e["op"]], got, a,
              "decorated" if case["deco"][a] else "undecorated",
              lo if lo == hi else "%d..%d" % (lo, hi), case["ops"]),
            "C07:undecorated" if not all(case["deco"]) else "C07:delivery")


PROP = C07
