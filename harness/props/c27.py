"""C27 - thread-safe attributes lose no updates and never fail under concurrency."""
import os
import shutil
import tempfile
import itertools
import linecache
from hypothesis import strategies as st

from ..run import Prop
from ..common import PropertyViolation
from .. import detsched
from .c04 import schedule_st

STMTS = {"assign": "o.x = {c}", "add": "o.x += {c}", "sub": "o.x -= {c}", "mul": "o.x *= {c}",
         "read": "out.append(o.x)"}
# other ways of writing the same augmented assignment (the object reached through a subscript, a
# call, or inside a one-line if)
SHAPES = ["{stmt}", "{stmt}", "objs[0].x {op} {c}", "same(o).x {op} {c}", "if True: {stmt}",
          "o . x {op} {c}",
          # the same line reads the attribute a second time, before or after the assignment
          "if o.x > -10 ** 9: {stmt}", "{stmt}; out.append(o.x)",
          # the same statement written over two lines
          "o.x \\\n      {op} {c}", "o.x {op} (\n      {c})",
          # the right-hand side reads the attribute itself: on the same line, on the next line, and
          # inside a helper written elsewhere ('acct.balance += acct.interest()')
          "o.x {op} o.x * 0 + {c}", "o.x {op} (\n      o.x * 0 + {c})", "o.x {op} rd(o) * 0 + {c}",
          # ... or the helper itself updates the attribute with an augmented assignment of its own
          # (nested: the outer statement reads first and writes last, so what the helper adds is
          # overwritten - also in every serial execution)
          "o.x {op} bump(o) * 0 + {c}"]
OPS = {"add": "+=", "sub": "-=", "mul": "*="}


@st.composite
def attr_case(draw):
  nthreads = draw(st.integers(2, 3))
  threads = []
  for _ in range(nthreads):
    n = draw(st.integers(1, 3))
    threads.append([[draw(st.sampled_from(["assign", "add", "add", "sub", "mul", "read"])),
                     draw(st.integers(1, 4)), draw(st.integers(0, len(SHAPES) - 1))] for _ in range(n)])
  fine = st.lists(st.tuples(st.integers(0, 5), st.integers(1, 9)), max_size=60)
  return {"threads": threads, "initial": draw(st.integers(0, 3)),
          "schedule": [list(x) for x in draw(st.one_of(schedule_st, fine))],
          # the statements live in a function that refers to more than 128 other names first (so
          # that the attribute's name needs an extended argument in the bytecode)
          "big": draw(st.integers(0, 3)) == 0,
          # how the class declares the attribute: in _attributes only, with a class-level default of
          # the same name as well, or by inheriting the declaration from its base class
          "klass": draw(st.sampled_from(["plain", "plain", "default", "child"])),
          # pre-emption at every BYTECODE (between the read and the write of a one-line 'o.x += c')
          "fine": draw(st.integers(0, 2)) == 0}


def serial_results(threads, initial):
  """Final values of every serial execution (interleavings of whole statements)."""
  results = set()
  idx = [0] * len(threads)

  def go(val):
    done = True
    for t in range(len(threads)):
      if idx[t] < len(threads[t]):
        done = False
        k, c = threads[t][idx[t]][:2]
        idx[t] += 1
        go({"assign": c, "add": val + c, "sub": val - c, "mul": val * c, "read": val}[k])
        idx[t] -= 1
    if done:
      results.add(val)
  go(initial)
  return results


class C27(Prop):
  id = "C27"
  quick_examples = 600
  thorough_examples = 5000
  rule = ("Generated programs under the deterministic scheduler with the attribute's RLock replaced "
          "by a virtual lock: 2-3 threads x 1-3 statements each from {o.x = c, o.x += c, o.x -= c, "
          "o.x *= c, read o.x} on one thread-safe attribute (the augmented assignments also written as "
          "objs[0].x += c, same(o).x += c, 'if True: o.x += c', 'o . x += c', 'if o.x > -10**9: o.x += c' and "
          "'o.x += c; out.append(o.x)' and the statement split over two lines with a backslash or parentheses, and right-hand sides that read the attribute again on the same line, on the next line or inside a helper written elsewhere, or call a helper that makes an augmented assignment of its own to the attribute'; a quarter of the programs put the statements in functions that refer to 140 "
          "other names first), written to a real source file; the class declares the attribute in _attributes only, with a class-level default of the same name as well, or inherits the declaration (miros "
          "inspects the caller's source line); pre-emption at every line of "
          "miros/thread_safe_attributes.py and of the generated file (in a third of the cases at every bytecode), schedules with run lengths "
          "from 1 (fine races) to 200. Oracle: no thread dies with an exception, no deadlock (exact "
          "detector), and the final value is the result of some serial execution of the same "
          "statements (all interleavings of whole statements are enumerated). Non-trivial: a plain "
          "assignment or read by one thread was scheduled while another thread was between the get "
          "and the set of an augmented assignment; distinct = distinct case digests.")
  assumptions = ["virtual RLock (owner-checked release, re-entrant) stands in for threading.RLock"]

  def strategy(self, tier):
    return attr_case()

  def check(self, case, stats):
    ao = detsched.install()
    detsched.reset(ao)
    import miros
    import miros.thread_safe_attributes as tsa
    files = detsched.miros_files()
    d = tempfile.mkdtemp(prefix="vf_c27_")
    path = os.path.join(d, "vf_attr_program.py")
    src = ""
    for t, stmts in enumerate(case["threads"]):
      src += "def t%d(o, out):\n  objs = [o]\n  same = lambda q: q\n  rd = lambda q: q.x\n  def bump(q):\n    q.x += 1\n    return 1\n" % t
      if case.get("big"):
        src += "  if objs is None:\n    (%s)\n" % ", ".join("vf_n%d" % i for i in range(140))
      for st_ in stmts:
        k, c = st_[0], st_[1]
        line = STMTS[k].format(c=c)
        if k in OPS and len(st_) > 2:
          line = SHAPES[st_[2]].format(stmt=line, op=OPS[k], c=c)
        src += "  " + line + "\n"
      src += "  return None\n\n"
    with open(path, "w") as f:
      f.write(src)
    linecache.checkcache(path)
    ns = {}
    exec(compile(src, path, "exec"), ns)
    info = {"between": 0}
    try:
      how = case.get("klass", "plain")
      klass = type("VfShared", (miros.ThreadSafeAttributes,),
                   {"_attributes": ["x"], "x": 0} if how == "default" else {"_attributes": ["x"]})
      if how == "child":
        klass = type("VfSharedChild", (klass,), {"note": "inherits the declaration"})
      desc = next((k.__dict__["x"] for k in klass.__mro__ if "x" in k.__dict__), None)

      def body(s):
        o = klass()
        o.x = case["initial"]
        outs = [[] for _ in case["threads"]]
        ths = [ao.Thread(target=ns["t%d" % t], args=(o, outs[t]), name="w%d" % t)
               for t in range(len(case["threads"]))]

        def on_switch(prev, nxt):
          lock = getattr(desc, "_lock", None)
          held = getattr(lock, "held_by", lambda: None)()
          if held is not None and held == prev.name and nxt.name.startswith("w") and nxt.name != prev.name:
            info["between"] += 1
        s.on_switch = on_switch
        for t in ths:
          t.start()
        for t in ths:
          t.join()
        info["final"] = o.x
        info["outs"] = outs

      s = detsched.Scheduler(schedule=case["schedule"], step_limit=3000000, opcodes=bool(case.get("fine")),
                             trace_files=[files["thread_safe_attributes"], path])
      try:
        detsched.guarded_run(s, body)
      except detsched.Deadlock as e:
        raise PropertyViolation("deadlock: %s; program:\n%s" % (e, src), "C27:deadlock")
      except detsched.StepLimit as e:
        raise PropertyViolation("no termination: %s" % e, "C27:livelock")
    finally:
      linecache.clearcache()
      shutil.rmtree(d, ignore_errors=True)
    mixed = any(x[0] in ("assign", "read") for th in case["threads"] for x in th) and \
        any(x[0] in ("add", "sub", "mul") for th in case["threads"] for x in th)
    stats.case(case, mixed and info["between"] > 0,
               ["threads_%d" % len(case["threads"]), "switch_while_lock_held" if info["between"] else "no_such_switch"])
    if s.thread_errors:
      name, e, tb = s.thread_errors[0]
      self.violation(stats, "thread %s died with %s: %s; program:\n%s" % (name, type(e).__name__, e, src),
                     "C27:thread-error")
      return
    want = serial_results(case["threads"], case["initial"])
    if info["final"] not in want:
      raise PropertyViolation("final value %r is not the result of any serial execution %s; program:\n%s" % (
        info["final"], sorted(want), src), "C27:lost-update")


PROP = C27
