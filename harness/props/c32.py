"""C32 - stripped() makes trace comparison timestamp-insensitive."""
import datetime
from hypothesis import strategies as st

from ..run import Prop
from ..common import PropertyViolation

# characters str.splitlines() treats as line boundaries are excluded from names (DESIGN 6)
LINEBREAKS = "\n\r\x0b\x0c\x1c\x1d\x1e\x85  "
name_text = st.text(alphabet=st.characters(blacklist_characters=LINEBREAKS, blacklist_categories=("Cs",)),
                    min_size=1, max_size=10)
ident = st.from_regex(r"[A-Za-z_][A-Za-z0-9_]{0,10}", fullmatch=True)
stamp = st.datetimes(min_value=datetime.datetime(1970, 1, 1), max_value=datetime.datetime(2999, 12, 31))
pad = st.text(alphabet=" \t", max_size=3)


def fmt(ts, rec):
  # the layout of HsmWithQueues.trace_tuple_to_formatted_string
  return "[%s] [%s] e->%s() %s->%s" % (ts.strftime("%Y-%m-%d %H:%M:%S.%f"), rec[0], rec[1], rec[2], rec[3])


def render(recs, stamps, pads, blanks, plain=()):
  """A trace text in the shape miros' trace() returns: leading newline, one line per record.
  `plain`: (position, text) lines WITHOUT a timestamp (spy lines) placed before that record."""
  out = "\n"
  for k, rec in enumerate(recs):
    out += "\n" * blanks[k % len(blanks)]
    for pos, text in plain:
      if pos % len(recs) == k:
        out += pads[(2 * k) % len(pads)] + text + "\n"
    out += pads[(2 * k) % len(pads)] + fmt(stamps[k % len(stamps)], rec) + pads[(2 * k + 1) % len(pads)] + "\n"
  return out


def reference(text):
  """Independent reading of the statement: non-empty lines, surrounding whitespace removed,
  without their leading '[timestamp] '."""
  out = []
  for line in text.split("\n"):
    line = line.strip(" \t")
    if not line:
      continue
    if line[0] == "[" and line[1:5].isdigit() and "] " in line:
      out.append(line[line.index("] ") + 2:])
    else:
      out.append(line)          # a line that does not start with a timestamp (a spy line) is kept
  return out


@st.composite
def trace_case(draw):
  rec = st.tuples(name_text.filter(lambda s: s == s.strip() and "]" not in s),
                  st.one_of(ident, name_text.filter(lambda s: s == s.strip())), ident, ident)
  n = draw(st.integers(1, 6))
  recs = draw(st.lists(rec, min_size=n, max_size=n))
  stamps = lambda: draw(st.lists(stamp, min_size=1, max_size=3))
  mode = draw(st.sampled_from(["benign", "benign", "edit_field", "drop", "swap", "duplicate"]))
  case = {"recs": [list(r) for r in recs], "mode": mode,
          "stamps_a": [s.isoformat() for s in stamps()], "stamps_b": [s.isoformat() for s in stamps()],
          "pads_b": draw(st.lists(pad, min_size=1, max_size=4)),
          "blanks_b": draw(st.lists(st.integers(0, 2), min_size=1, max_size=3)),
          "at": draw(st.integers(0, n - 1)), "field": draw(st.integers(0, 3)),
          "new": draw(ident),
          # lines without a timestamp, as spy() prints them; the same in both texts
          "plain": draw(st.lists(st.tuples(st.integers(0, 5), st.sampled_from(
            ["ENTRY_SIGNAL:vs1", "VA:vs0:HOOK", "<- Queued:(0) Deferred:(0)", "START", "POST_FIFO:VB",
             "SEARCH_FOR_SUPER_SIGNAL:a_b", "note [1] x"])), max_size=2).map(lambda l: [list(x) for x in l]))}
  return case


class C32(Prop):
  id = "C32"
  quick_examples = 1500
  thorough_examples = 15000
  rule = ("Hypothesis-generated traces in the exact layout miros' trace() produces ('[timestamp] "
          "[chart name] e->SIGNAL() from->to', leading newline, one line per record): 1-6 records "
          "with arbitrary chart names and signal names (any Unicode without line-boundary "
          "characters), identifier state names and arbitrary valid timestamps, optionally with lines that carry no timestamp (spy lines) in between. Every case also drives a real two-state "
          "chart (generated chart name and signal names, its clock returning the generated "
          "timestamps, some of them on a whole second) and strips what its trace() returns. "
          "Metamorphic oracle: "
          "a copy with new timestamps, inserted blank lines and spaces/tabs around lines strips to "
          "an equal list; a copy with one field edited, one record dropped, two different adjacent "
          "records swapped or one record duplicated strips to an unequal list. Reference oracle: "
          "stripped(text) equals the non-empty lines without their leading '[timestamp] ' computed "
          "independently, also for the traces with their surrounding blank lines trimmed (two records: exactly "
          "one newline character); a single line (no newline) strips to that line without its timestamp. "
          "Non-trivial: >=2 records with >=1 perturbation applied; distinct = distinct case digests.")
  assumptions = [
    "chart/signal names contain no str.splitlines() boundary character and chart names no ']'",
    "both texts of a pair keep the multi-line shape of trace() (a one-line string yields a str, "
    "not a list, by design)",
  ]

  def strategy(self, tier):
    return trace_case()

  def check_real_trace(self, case, stats):
    """A trace that miros itself produces (a two-state chart with a generated chart name and
    signal names, driven through real transitions) strips to its records without timestamps."""
    from miros.hsm import stripped, HsmWithQueues, spy_on as deco
    from miros.event import Event, signals, return_status
    recs = [tuple(r) for r in case["recs"]]
    chart_name = recs[0][0]
    sig_names = [r[1] for r in recs]

    def make(name, other):
      def st_(chart, e):
        if e.signal in (signals.ENTRY_SIGNAL, signals.EXIT_SIGNAL, signals.INIT_SIGNAL):
          return return_status.HANDLED
        if e.signal_name in sig_names:
          return chart.trans(fns[other])
        chart.temp.fun = chart.top
        return return_status.SUPER
      st_.__name__ = name
      return deco(st_)
    fns = {}
    fns["va"], fns["vb"] = make("vtrace_a", "vb"), make("vtrace_b", "va")
    # the chart's clock returns the case's generated timestamps (some on a whole second)
    import miros.hsm as hsm_mod
    real_dt = hsm_mod.stdlib_datetime
    stamps = [datetime.datetime.fromisoformat(x) for x in case["stamps_a"] + case["stamps_b"]]
    stamps = stamps + [x.replace(microsecond=0) for x in stamps[:2]]
    counter = [0]

    class GeneratedClock(real_dt):
      @classmethod
      def now(cls, tz=None):
        counter[0] += 1
        return stamps[counter[0] % len(stamps)]
    hsm_mod.stdlib_datetime = GeneratedClock
    try:
      return self._real_trace_body(case, fns, sig_names, chart_name, stripped, HsmWithQueues, Event)
    finally:
      hsm_mod.stdlib_datetime = real_dt

  def _real_trace_body(self, case, fns, sig_names, chart_name, stripped, HsmWithQueues, Event):
    chart = HsmWithQueues()
    chart.name = chart_name
    chart.start_at(fns["va"])
    want = ["[%s] e->start_at() top->vtrace_a" % chart_name]
    cur = "vtrace_a"
    for sg in sig_names:
      chart.post_fifo(Event(signal=sg))
      chart.next_rtc()
      nxt = "vtrace_b" if cur == "vtrace_a" else "vtrace_a"
      want.append("[%s] e->%s() %s->%s" % (chart_name, sg, cur, nxt))
      cur = nxt
    text = chart.trace()
    with stripped(text) as got:
      if list(got) != want:
        raise PropertyViolation("trace() of a real chart %r stripped to %r, expected %r" % (text, got, want),
                                "C32:real-trace")
    with stripped(text) as a, stripped(text.replace("\n", "\n \n  ")) as b:
      if a != b:
        raise PropertyViolation("a real trace and its copy with blank lines and indentation strip "
                                "differently: %r vs %r" % (a, b), "C32:real-trace")

  def check(self, case, stats):
    self.check_real_trace(case, stats)
    from miros.hsm import stripped
    iso = datetime.datetime.fromisoformat
    recs = [tuple(r) for r in case["recs"]]
    plain = [tuple(x) for x in case.get("plain") or ()]
    a = render(recs, [iso(s) for s in case["stamps_a"]], [""], [0], plain)
    mode, at = case["mode"], case["at"] % len(recs)
    recs_b = list(recs)
    expect_equal = True
    if mode == "edit_field":
      r = list(recs_b[at])
      if r[case["field"]] != case["new"]:
        r[case["field"]] = case["new"]
        recs_b[at] = tuple(r)
        expect_equal = False
    elif mode == "drop":
      del recs_b[at]
      expect_equal = False
      if not recs_b:
        recs_b = [recs[0], recs[0]]
    elif mode == "swap" and at + 1 < len(recs_b) and recs_b[at] != recs_b[at + 1]:
      recs_b[at], recs_b[at + 1] = recs_b[at + 1], recs_b[at]
      expect_equal = False
    elif mode == "duplicate":
      recs_b.insert(at, recs_b[at])
      expect_equal = False
    b = render(recs_b, [iso(s) for s in case["stamps_b"]], case["pads_b"], case["blanks_b"], plain)
    stats.case(case, len(recs) >= 2, ["mode_" + mode, "expect_equal" if expect_equal else "expect_unequal"])
    try:
      with stripped(a) as sa, stripped(b) as sb:
        ra, rb = reference(a), reference(b)
        if list(sa) != ra or not isinstance(sa, list):
          raise PropertyViolation("stripped(%r) gave %r, expected %r" % (a, sa, ra), "C32:reference")
        if list(sb) != rb or not isinstance(sb, list):
          raise PropertyViolation("stripped(%r) gave %r, expected %r" % (b, sb, rb), "C32:reference")
        if (sa == sb) != expect_equal:
          raise PropertyViolation("traces %r and %r (%s) compare %s after stripping" % (
            a, b, mode, "equal" if sa == sb else "unequal"), "C32:equivalence")
      if len(recs) >= 2 and len(recs_b) >= 2:
        # the same traces with their surrounding blank lines trimmed are still several lines
        ta_, tb_ = a.strip(" \t\n"), b.strip(" \t\n")
        with stripped(ta_) as ta, stripped(tb_) as tb:
          if not isinstance(ta, list) or list(ta) != ra:
            raise PropertyViolation("stripped(%r) gave %r, expected %r" % (ta_, ta, ra), "C32:reference")
          if not isinstance(tb, list) or list(tb) != rb:
            raise PropertyViolation("stripped(%r) gave %r, expected %r" % (tb_, tb, rb), "C32:reference")
          if (ta == tb) != expect_equal:
            raise PropertyViolation("trimmed traces %r and %r (%s) compare %s after stripping" % (
              ta_, tb_, mode, "equal" if ta == tb else "unequal"), "C32:equivalence")
      line = fmt(iso(case["stamps_a"][0]), recs[0])
      with stripped(line) as one:
        want = line[line.index("] ") + 2:]
        if one != want:
          raise PropertyViolation("single line %r stripped to %r, expected %r" % (line, one, want),
                                  "C32:single")
    except PropertyViolation:
      raise
    except Exception as e:
      raise PropertyViolation("stripped raised %s: %s on %r" % (type(e).__name__, e, b), "C32:raised")


PROP = C32
