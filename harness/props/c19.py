"""C19 - the spy log records exactly the state invocations the processor made."""
from ..run import Prop
from ..common import PropertyViolation, HarnessBound
from .. import spytrace


def first_diff(a, b):
  for i in range(max(len(a), len(b))):
    x = a[i] if i < len(a) else None
    y = b[i] if i < len(b) else None
    if x != y:
      return i, x, y
  return None


class C19(Prop):
  id = "C19"
  quick_examples = 2000
  thorough_examples = 6000
  rule = ("Hypothesis-generated histories on a decorated chart hosted on an instrumented "
          "HsmWithQueues: handlers post_fifo/post_lifo/defer/recall/scribble and query the chart (is_in, "
          "current_state) from their clauses; "
          "operations post/defer/recall/next_rtc/complete_circuit (a next_rtc on an empty queue logs the queue "
          "reflection alone); one history in eight is long (255-350 queued events) "
          "so the 500-line ring wraps, one in seven starts from a queue filled to its capacity of 500 (a handler's post then displaces a queued event and is a post all the same). Oracle built from the handlers' OWN invocation stream: each "
          "step's spy_rtc() equals one 'SIGNAL:state' line per invocation the processor made (offers, "
          "EMPTY_SIGNAL guard fallbacks, SEARCH_FOR_SUPER probes, entry, exit, init) in order, a "
          "':HOOK' line exactly when a user signal returned HANDLED, the POST_FIFO / POST_LIFO / "
          "POST_DEFERRED / RECALL markers and scribbles at the position the handler made the call, "
          "START for start_at, and the queue reflection line with the model's counts; spy() equals "
          "the concatenation of all step logs, last 500. Non-trivial: the history has a step with a "
          "HOOK line or guard fallback and a step with a handler-made marker; distinct = distinct case digests.")
  assumptions = [
    "markers of posts made from OUTSIDE a step are not required to appear (the statement covers "
    "posts and recalls made during the step)",
    "a next_rtc on an empty queue dispatches nothing: its step log is the queue reflection line alone (a complete_circuit on an empty queue does nothing)",
    "histories whose handler actions run in another order than the model predicts are "
    "excluded (C01 domain)",
  ]

  def strategy(self, tier):
    from hypothesis import strategies as st
    base = spytrace.history(tier)
    def two_deferred(case):
      # events of two different signals are waiting in the defer list when the history begins: a
      # recall made by a handler names the OLDEST one in its RECALL line
      sigs = case["spec"]["sigs"]
      return dict(case, ops=[["defer", sigs[-1]], ["defer", sigs[0]]] + list(case["ops"]))
    return st.one_of(base, base, base, base, base, base.map(two_deferred), base.map(spytrace.at_capacity))

  def extra(self, tier, seed, shard, nshards, stats):
    """A post made DURING a step by somebody else than the handler: a state of a started
    ActiveObject arms a timed post that fires at once and stays in its step until the event has
    arrived - the step's log has the POST marker between the handler's line and its HOOK line."""
    if shard != 0:
      return
    for kind in ("fifo", "lifo"):
      for times in (1, 2):
        case = {"timed_post_during_step": kind, "times": times, "schedule": []}
        try:
          self.check_timed(case, stats)
        except PropertyViolation as v:
          yield case, v
          return

  def check_timed(self, case, stats):
    from .c10 import TimedWorld
    from .. import detsched
    kind = case["timed_post_during_step"]
    w = TimedWorld(case)
    box = {}

    def body(s):
      def on_extra(c, e):
        if e.signal_name == "VA":
          getattr(c, "post_" + kind)(w.Event(signal=w.signals["VB"], payload=1), period=0.5, times=case["times"],
                                     deferred=False)
          w.ao.time.sleep(0.1)          # the source's first posting arrives while this step runs
      chart, fn = w.make_chart(s, on_extra=on_extra)
      chart.start_at(fn)
      s.quiesce()
      chart.post_fifo(w.Event(signal=w.signals["VA"], payload=0))
      s.sleep_until(s.now + 0.3)
      box["spy"] = list(chart.spy())
      chart.cancel_events(w.Event(signal=w.signals["VB"]))
      s.quiesce()
    try:
      w.run(body)
    except (detsched.Deadlock, detsched.StepLimit) as e:
      raise PropertyViolation("no quiescence: %s" % e, "C19:liveness")
    stats.case(case, True, ["timed_post_during_step"])
    spy = box["spy"]
    marker = "POST_%s:VB" % kind.upper()
    try:
      i = spy.index("VA:vflat")
      j = spy.index("VA:vflat:HOOK")
    except ValueError:
      raise PropertyViolation("the step of VA is not in the spy: %s" % spy[-12:], "C19:full")
    if spy[i + 1:j] != [marker]:
      raise PropertyViolation("a timed %s post fired while the step of VA was running: between %r and %r the spy has %s, "
                              "expected [%r]" % (kind, spy[i], spy[j], spy[i + 1:j], marker), "C19:rtc")

  def check(self, case, stats):
    if "timed_post_during_step" in case:
      return self.check_timed(case, stats)
    run = spytrace.Run(case)
    nontrivial, classes = False, []
    seen_hook = seen_mark = False
    try:
      try:
        o, steps = run.start()
        self.compare(run, "start_at", steps)
        for idx, op in enumerate(case["ops"]):
          r = run.apply(op)
          if r is None:
            stats.exclude("op_on_empty_queue_skipped")
            continue
          if r == "desync" or run.model.d.overflowed:
            stats.exclude("desync_actions_or_capacity")
            break
          o, steps = r
          if op[0] in ("clear_spy", "clear_trace"):
            self.compare(run, "op %d %s" % (idx, op), None)
            classes.append("cleared_between_steps")
          if steps:
            self.compare(run, "op %d %s" % (idx, op), steps)
            for s in steps:
              hook = any(l.endswith(":HOOK") for l in s)
              fb = any(l.startswith("EMPTY_SIGNAL:") for l in s)
              mark = any(l.startswith(("POST_", "RECALL:")) or "note" in l for l in s)
              if hook:
                classes.append("step_with_hook")
              if fb:
                classes.append("step_with_guard_fallback")
              if mark:
                classes.append("step_with_marker")
              seen_hook = seen_hook or hook or fb
              seen_mark = seen_mark or mark
              nontrivial = seen_hook and seen_mark
        if case.get("at_capacity"):
          classes.append("queue_at_capacity")
        if len(run.exp_full) == spytrace.RING:
          classes.append("ring_wrapped")
      except spytrace.Desync:
        # the handlers' actions ran in another order / number than the model predicts (a chart
        # whose exit action queries the chart mid-transition, C01/C02 domain): not comparable
        stats.exclude("desync_actions_or_capacity")
      except HarnessBound as e:
        raise PropertyViolation("did not terminate: %s" % e, "C19:hang")
      except PropertyViolation:
        raise
      except Exception as e:
        raise PropertyViolation("raised %s: %s" % (type(e).__name__, e), "C19:raised")
    finally:
      run.close()
    stats.case(case, nontrivial, classes)

  def compare(self, run, where, steps):
    chart = run.real.chart
    rtc = chart.spy_rtc()
    d = first_diff(rtc, steps[-1]) if steps else None
    if d:
      raise PropertyViolation("%s: spy_rtc() line %d is %r, the handlers saw %r" % (
        (where,) + d), "C19:rtc")
    full = chart.spy()
    d = first_diff(full, list(run.exp_full))
    if d:
      raise PropertyViolation("%s: spy() line %d is %r, concatenated step logs give %r "
                              "(%d vs %d lines)" % ((where,) + d + (len(full), len(run.exp_full))),
                              "C19:full")


PROP = C19
