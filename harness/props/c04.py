"""C04 - an active object dispatches every posted event exactly once, in queue order.
(shares its executor with C05)"""
from hypothesis import strategies as st

from ..run import Prop
from ..common import PropertyViolation, HarnessBound
from .. import detsched, aocheck

# a schedule is a list of (thread pick, run length) decisions: random segments, or a periodic
# pattern (thread i mod k runs q lines) which reaches narrow check-then-act windows systematically
schedule_st = st.one_of(
  st.lists(st.tuples(st.integers(0, 7), st.one_of(st.integers(1, 12), st.integers(1, 200))), max_size=80),
  st.lists(st.tuples(st.integers(0, 7), st.one_of(st.integers(1, 12), st.integers(1, 200))), max_size=80),
  st.tuples(st.integers(1, 60), st.integers(2, 4)).map(lambda t: [(i % t[1], t[0]) for i in range(90)]))
kinds_st = st.sampled_from(["fifo", "fifo", "lifo"])


@st.composite
def post_case(draw, heavy=False):
  nposters = draw(st.integers(1, 3))
  mode = draw(st.sampled_from(["mixed", "mixed", "lifo", "fifo"]))
  kinds_st = {"mixed": st.sampled_from(["fifo", "fifo", "lifo"]), "lifo": st.just("lifo"),
              "fifo": st.just("fifo")}[mode]
  posters = [draw(st.lists(kinds_st, min_size=1, max_size=3)) for _ in range(nposters)]
  if heavy and draw(st.integers(0, 3)) == 0:
    # long bursts: the posters are still posting while the object works through its steps
    posters = [draw(st.lists(kinds_st, min_size=15, max_size=40)) for _ in range(nposters)]
  body = draw(st.lists(kinds_st, max_size=2))
  prefill = draw(st.lists(kinds_st, max_size=2))
  total = sum(len(p) for p in posters) + len(body) + len(prefill)
  handler = {}
  for k in range(draw(st.integers(0, 2))):
    if total >= 12:
      break
    handler[str(draw(st.integers(0, max(0, total - 1))))] = draw(kinds_st)
    total += 1
  case = {"posters": posters, "body": body, "prefill": prefill, "handler": handler,
          "schedule": [list(x) for x in draw(schedule_st)], "heavy": 0,
          # events that arrive through the fabric and from a timed source
          "subscribe": "none", "publishes": 0, "timer": None}
  if draw(st.integers(0, 2)) == 0:
    case["subscribe"] = draw(st.sampled_from(["fifo", "lifo", "both"]))
    case["publishes"] = draw(st.integers(1, 3))
  if draw(st.integers(0, 3)) == 0:
    case["timer"] = draw(st.sampled_from([["fifo", 2], ["lifo", 1], ["fifo", 3]]))
  if True:
    pass
  if heavy:
    case["heavy"] = draw(st.sampled_from([0, 0, 0, 0, 0, 1, 1, 497, 498, 499, 500]))
    if draw(st.integers(0, 9)) == 0:
      # a subclass that asks for a larger queue, and more events waiting than the shipped size
      case["bigq"] = 600
      case["heavy"] = draw(st.sampled_from([501, 540]))
  if heavy and draw(st.integers(0, 3)) == 0:
    # a state that empties the object's own queue (chart.queue.clear()) while the posters post:
    # what it removes is gone, whatever arrives next to it is either removed or dispatched
    case["clears"] = sorted(set(draw(st.lists(st.integers(0, 6), min_size=1, max_size=3))))
  # live spy/trace output switched on (not with a pre-filled queue: hundreds of steps of output)
  case["live"] = draw(st.integers(0, 2)) == 0 and not case["heavy"]
  return case


def run_post_case(case, step_limit=400000):
  """Execute the posting scenario under the deterministic scheduler.
  Returns dict(rec, sched, failure, ids, info)."""
  ao = detsched.install()
  detsched.reset(ao)
  from miros.event import Event, signals
  files = detsched.miros_files()
  rec = aocheck.Rec()
  out = {"rec": rec, "failure": None, "posted": [], "published": [], "timer_expected": 0,
         "final_len": None, "ao_state": None,
         "switch_inside_post": 0, "posters_done": None}
  signals.append("VA")
  VA = signals["VA"]
  handler_plan = dict((int(k), v) for k, v in case["handler"].items())
  clears = set(case.get("clears") or ())
  count = [0]

  def body(s):
    A = aocheck.make_ao_class(rec)
    if case.get("bigq"):
      A = type("VfBigQueueAO", (A,), {"QUEUE_SIZE": case["bigq"]})
    chart = A(name="ao1")

    def on_dispatch(c, e):
      k = count[0]
      count[0] += 1
      if k in clears:
        c.queue.clear()
      kind = handler_plan.get(k)
      if kind:
        nid = 1000 + k
        out["posted"].append(nid)
        getattr(c, "post_" + kind)(Event(signal=VA, payload=nid))
    st_fn = aocheck.flat_chart(rec, on_dispatch=on_dispatch)
    if case.get("live"):
      sink = []
      chart.live_spy = chart.live_trace = True
      chart.register_live_spy_callback(sink.append)
      chart.register_live_trace_callback(sink.append)

    def on_switch(prev, nxt):
      for p in rec.posts:
        if p["ret"] is None and p["tid"] == prev.tid and p["thread"] != "ao1":
          out["switch_inside_post"] += 1
          break
    s.on_switch = on_switch
    for j in range(case.get("heavy", 0)):
      chart.post_fifo(Event(signal=VA, payload=5000 + j))
      out["posted"].append(5000 + j)
    for j, kind in enumerate(case["prefill"]):
      nid = 10 + j
      out["posted"].append(nid)
      getattr(chart, "post_" + kind)(Event(signal=VA, payload=nid))
    sub = case.get("subscribe", "none")
    signals.append("VB")
    if sub in ("fifo", "both"):
      chart.subscribe(Event(signal=signals["VB"]), queue_type="fifo")
    if sub in ("lifo", "both"):
      chart.subscribe(Event(signal=signals["VB"]), queue_type="lifo")
    chart.start_at(st_fn)
    if sub != "none":
      s.quiesce()          # the subscriptions are in effect before anything is published
    tm = case.get("timer")
    if tm:
      signals.append("VC")
      chart_post = getattr(chart, "post_" + tm[0])
      chart_post(Event(signal=signals["VC"], payload=7000), period=0.5, times=tm[1], deferred=False)
      out["timer_expected"] = tm[1]
    for j in range(case.get("publishes", 0)):
      out["published"].append(3000 + j)
      chart.publish(Event(signal=signals["VB"], payload=3000 + j))

    def poster(k, kinds):
      for j, kind in enumerate(kinds):
        nid = (k + 1) * 100 + j
        out["posted"].append(nid)
        getattr(chart, "post_" + kind)(Event(signal=VA, payload=nid))
    threads = [ao.Thread(target=poster, args=(k, kinds), name="poster%d" % k)
               for k, kinds in enumerate(case["posters"])]
    for t in threads:
      t.start()
    for j, kind in enumerate(case["body"]):
      nid = 50 + j
      out["posted"].append(nid)
      getattr(chart, "post_" + kind)(Event(signal=VA, payload=nid))
    for t in threads:
      t.join()
    s.quiesce()
    if tm:
      s.sleep_until(s.now + 0.5 * tm[1] + 1.0)     # let the timed source finish
    out["posters_done"] = all(not t.is_alive() for t in threads)
    out["final_len"] = len(chart.queue)
    out["tokens"] = chart.queue.qsize() if hasattr(chart.queue, "qsize") else None
    out["ao_state"] = s.blocked_info().get("ao1")
    out["ao_alive"] = chart.thread.is_alive()

  s = detsched.Scheduler(schedule=case["schedule"], step_limit=step_limit,
                         trace_files=[files["activeobject"], files["hsm"]])
  out["sched"] = s
  try:
    detsched.guarded_run(s, body)
  except detsched.Deadlock as e:
    out["failure"] = ("deadlock", str(e))
  except detsched.StepLimit as e:
    out["failure"] = ("livelock", "%s; blocked: %s" % (e, s.blocked_info()))
  except HarnessBound as e:
    out["failure"] = ("bound", str(e))
  return out


class C04(Prop):
  id = "C04"
  quick_examples = 800
  thorough_examples = 8000
  rule = ("Generated schedules under the deterministic scheduler (pre-emption at every source line "
          "of miros/activeobject.py and miros/hsm.py and at every virtual queue/event/thread "
          "operation; schedule = generated list of (thread pick, run length 1..200) followed by "
          "fair round-robin): a started ActiveObject, 1-3 poster threads with generated fifo/lifo "
          "post lists, posts from the body thread, posts made before start_at and posts made by "
          "handlers, optionally 0-3 publications of a signal the object subscribed to (fifo, lifo or "
          "both) and a timed source with 1-3 shots, <= 12 direct posts in all (far below capacity), every event with a unique id. Oracle "
          "after quiescence: (1) the multiset of dispatched ids equals the posted ids, every publication "
          "is dispatched once per subscription kind (in publish order for a fifo subscription) and "
          "the timed source exactly its number of shots; (2) "
          "linearizability: an exhaustive search finds a total order of post and pop operations "
          "that respects every operation's [invoke, return] step interval and under which a deque "
          "(fifo=append, lifo=appendleft) yields the observed dispatch order (runs with direct "
          "posts only); (3) the queue is "
          "empty, every poster finished, the consumer is blocked waiting for a token (no lost "
          "wake-up) with tokens == pending; (4) run-to-completion steps never overlap and all run "
          "on one thread. Non-trivial: >=2 posting threads, >=1 lifo post and >=1 context switch "
          "taken while a poster was inside a post; distinct = distinct (scenario, schedule) digests.")
  assumptions = [
    "the virtual primitives (harness/detsched.py) stand in for threading/queue/time; CPython "
    "switches threads only between bytecodes, so every explored interleaving is realisable; "
    "line granularity explores a subset of them",
    "runs that deadlock or exceed the step bound are C05's subject and are excluded here",
  ]

  def strategy(self, tier):
    return post_case()

  def extra(self, tier, seed, shard, nshards, stats):
    """A regular family of schedules for the narrowest race of this property, a wake-up token
    taken between a post's token put and its deque store: ONE post (fifo or lifo) to an idle
    object under every periodic schedule (thread i mod k runs q lines), q in 1..60, k in 2..3."""
    idx = 0
    for kind in ("lifo", "fifo"):
      for k in (2, 3):
        for q in range(1, 61):
          idx += 1
          if idx % nshards != shard:
            continue
          case = {"posters": [[kind]], "body": [], "prefill": [], "handler": {}, "heavy": 0,
                  "subscribe": "none", "publishes": 0, "timer": None,
                  "schedule": [[i % k, q] for i in range(90)]}
          try:
            self.check(case, stats)
          except PropertyViolation as v:
            yield case, v
            return
    stats.classes["periodic_schedule_family"] = idx

  def check(self, case, stats):
    out = run_post_case(case)
    rec, s = out["rec"], out["sched"]
    lifo = any(k == "lifo" for p in case["posters"] for k in p) or "lifo" in case["body"]
    nposters = len(case["posters"]) + (1 if case["body"] else 0)
    nontrivial = nposters >= 2 and lifo and out["switch_inside_post"] >= 1
    stats.case(case, nontrivial, ["posters_%d" % len(case["posters"]),
                                  "switch_inside_post" if out["switch_inside_post"] else "no_switch_inside_post",
                                  "handler_posts" if case["handler"] else "no_handler_posts"])
    if s.leaked:
      stats.exclude("leaked_threads", s.leaked)
    if out["failure"]:
      stats.exclude("liveness_failure(C05 domain)")
      return
    if s.thread_errors:
      name, e, tb = s.thread_errors[0]
      raise PropertyViolation("thread %s died: %s: %s" % (name, type(e).__name__, e), "C04:thread-error")
    # events that came through the fabric or from the timed source are checked on their own
    via_fabric = [d["id"] for d in rec.dispatch if d["sig"] == "VB"]
    via_timer = [d["id"] for d in rec.dispatch if d["sig"] == "VC"]
    kinds_n = {"none": 0, "fifo": 1, "lifo": 1, "both": 2}[case.get("subscribe", "none")]
    want_fabric = sorted(out["published"] * kinds_n)
    if sorted(via_fabric) != want_fabric:
      raise PropertyViolation("published %s with a %s subscription, dispatched %s" % (
        out["published"], case.get("subscribe"), via_fabric), "C04:fabric-delivery")
    if case.get("subscribe") == "fifo" and via_fabric != sorted(via_fabric):
      raise PropertyViolation("fifo-subscribed publications were dispatched out of publish order: %s" % (
        via_fabric,), "C04:fabric-order")
    if len(via_timer) != out["timer_expected"]:
      raise PropertyViolation("a timed source with %d shots was dispatched %d time(s)" % (
        out["timer_expected"], len(via_timer)), "C04:timer-delivery")
    got = [d["id"] for d in rec.dispatch if d["sig"] == "VA"]
    if sorted(got) != sorted(out["posted"]):
      lost = sorted(set(out["posted"]) - set(got))
      dup = sorted(i for i in set(got) if got.count(i) > 1)
      raise PropertyViolation("posted %s, dispatched %s (lost %s, duplicated %s); queue length %s" % (
        sorted(out["posted"]), got, lost, dup, out["final_len"]), "C04:lost-or-dup")
    if out["final_len"] != 0 or not out["posters_done"]:
      raise PropertyViolation("at quiescence queue length is %s, posters done: %s" % (
        out["final_len"], out["posters_done"]), "C04:not-empty")
    if not out["ao_alive"] or out["ao_state"] != "Queue.get(empty)":
      raise PropertyViolation("at quiescence the active object's thread is %s (%s)" % (
        "alive" if out["ao_alive"] else "dead", out["ao_state"]), "C04:consumer")
    if out["tokens"] not in (None, 0):
      raise PropertyViolation("at quiescence %s wake-up tokens remain for 0 pending events" % out["tokens"],
                              "C04:tokens")
    # (4) RTC steps: strictly alternating enter/leave on one thread
    depth, tids = 0, set()
    for r in rec.rtc:
      tids.add(r[2])
      depth += 1 if r[0] == "enter" else -1
      if depth not in (0, 1):
        raise PropertyViolation("run-to-completion steps overlap: %s" % (rec.rtc,), "C04:overlap")
    if len(tids) > 1:
      raise PropertyViolation("run-to-completion steps ran on threads %s" % sorted(tids), "C04:threads")
    # (2) linearizability
    enters = [r for r in rec.rtc if r[0] == "enter"]
    pops = []
    extra = bool(via_fabric or via_timer)
    for d in [d for d in rec.dispatch if d["sig"] == "VA"]:
      inv = max([r[1] for r in enters if r[1] <= d["step"]] or [0])
      pops.append({"id": d["id"], "inv": inv, "ret": d["step"]})
    posts = [p for p in rec.posts if p["sig"] == "VA"]
    if len(posts) <= 14 and not extra:
      ok, explored = aocheck.linearizable(posts, pops)
      if not ok:
        raise PropertyViolation(
          "dispatch order %s is not a deque linearization of the posts %s" % (
            got, [(p["kind"], p["id"], p["inv"], p["ret"]) for p in posts]), "C04:order")


PROP = C04
