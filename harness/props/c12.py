"""C12 - stop() ends the active object's thread and its timed sources."""
from hypothesis import strategies as st

from ..run import Prop
from ..common import PropertyViolation
from .. import detsched
from .c04 import schedule_st
from .c10 import TimedWorld


@st.composite
def stop_case(draw):
  n = draw(st.integers(0, 3))
  sources = [{"kind": draw(st.sampled_from(["fifo", "lifo"])),
              "period": draw(st.sampled_from([0.5, 0.5, 1.0, 0.25])),
              "times": draw(st.sampled_from([0, 0, 4])),
              "deferred": draw(st.booleans()),
              "sig": draw(st.sampled_from(["VB", "VB", "VD", "VE"]))} for _ in range(n)]
  stop_at = draw(st.integers(0, 8)) * 0.25
  timed = {str(stop_at): [list(x) for x in draw(st.lists(st.tuples(st.integers(0, 5), st.integers(1, 40)),
                                                         max_size=6))]}
  never = draw(st.integers(0, 7)) == 0        # the object arms its timers but is never started
  return {"never_started": never,
          "sources": sources, "stop_from": "outside" if never else draw(st.sampled_from(["outside", "outside", "handler", "other_handler"])),
          "stop_at": stop_at, "timed_schedule": timed,
          "posts_before": draw(st.integers(0, 3)), "posts_with_stop": draw(st.integers(0, 2)),
          "slow_step": 0.0 if never else draw(st.sampled_from([0.0, 0.0, 0.3, 1.0, 1.5, 3.0, 12.0])),
          "arm_early": draw(st.integers(0, 3)) == 0,   # the timed posts are made before start_at
          # another thread arms 1-2 further sources at the very instant of the stop
          "armer": draw(st.sampled_from([0, 0, 0, 1, 2])),
          "slow_arms": draw(st.booleans()),     # the slow handler ends by arming a timed source
          "crash": (not never) and draw(st.integers(0, 4)) == 0,  # a handler raises: the thread is gone before stop() is called
          "same_name": draw(st.integers(0, 3)) == 0,  # the other object carries the same name
          "live": draw(st.sampled_from([None, None, "spy", "trace", "both"])),   # the stopped object prints live
          "schedule": [list(x) for x in draw(schedule_st)]}


class DeliberateCrash(Exception):
  """Raised on purpose by a generated handler."""


class C12(Prop):
  id = "C12"
  quick_examples = 600
  thorough_examples = 4000
  rule = ("Generated scenarios under the deterministic scheduler and virtual clock: an ActiveObject "
          "with 0-3 timed sources (periods 0.25-1.0, endless or 4 shots, over three signal names), a second ActiveObject "
          "subscribed to a signal, plain posts queued before the stop, one case in eight an object that armed its timers but was never started, one in four arming them before start_at, optionally live spy/trace output switched on for the object that is stopped, optionally a handler that raises (so the "
          "object's thread has already ended when stop() is called from outside), optionally a handler "
          "that takes 0.3-12 s of virtual time and is running when stop() is called, optionally another thread that arms 1-2 further sources at the very instant of the stop (stop() must not raise; sources whose arming had returned before stop() was called must be silent afterwards); stop() is called at a "
          "generated virtual instant (a multiple of 0.25, so it often coincides with a timer firing "
          "or falls inside a step) either from the body thread or from one of the object's own "
          "handlers, under generated schedules. Oracle: after stop() returned to an outside caller "
          "the object's thread is not alive, no run-to-completion step of it starts at a later "
          "scheduler step and no timed source of it invokes a post at a later step; when called "
          "from a handler the thread ends after that step with no further step; in both cases the "
          "other active object afterwards still dispatches a direct post and a publication, and the "
          "fabric threads are alive. Non-trivial: stop was issued while a step was in progress or "
          "at an instant at which a timed source fires; distinct = distinct case digests.")
  assumptions = ["a posting is 'invoked' when the timer thread enters post_fifo/post_lifo"]

  def strategy(self, tier):
    return stop_case()

  def check(self, case, stats):
    if "window_search" in case:
      # a listed finding described by a small family of scripted schedules at the stop instant:
      # the timer thread gets K steps, then the stopping thread, then the object's thread, then
      # the stopping thread again
      lo, hi = case["window_search"]
      for p1 in (1, 2):
        for p2 in (1, 2):
          for k in range(lo, hi + 1):
            c = dict((a, b) for a, b in case.items() if a != "window_search")
            c["timed_schedule"] = {str(case["stop_at"]): [[p1, k], [0, 400], [p2, 400], [0, 2000]]}
            self.check_one(c, stats)
      return
    return self.check_one(case, stats)

  def check_one(self, case, stats):
    w = TimedWorld(case)
    Event, signals, rec = w.Event, w.signals, w.rec
    info = {}

    def body(s):
      def on_extra(c, e):
        if e.signal_name == "VCRASH":
          raise DeliberateCrash("a handler of the user's chart raised")
        if e.signal_name == "VSLOW":
          w.ao.time.sleep(e.payload)
          if case.get("slow_arms"):
            c.post_fifo(Event(signal=signals["VE"], payload=55), period=0.5, times=0, deferred=True)
        elif e.signal_name == "VSTOP":
          info["handler_stop_inv"] = s.steps
          c.stop()
          info["handler_stop_ret"] = s.steps
          info["stop_now"] = s.now
      chart, fn = w.make_chart(s, "ao1", on_extra=on_extra)
      if case.get("live"):
        # the object that will be stopped hands its live output to the shared writer thread
        sink = []
        chart.live_spy = case["live"] in ("spy", "both")
        chart.live_trace = case["live"] in ("trace", "both")
        chart.register_live_spy_callback(sink.append)
        chart.register_live_trace_callback(sink.append)

      def on_other(c, e):
        if e.signal_name == "VSTOP":
          # another active object's handler stops the first one: "another thread"
          info["stop_inv"] = s.steps
          chart.stop()
          info["stop_ret"] = s.steps
          info["stop_now"] = s.now
          info["alive_after"] = chart.thread.is_alive()
      other, fn2 = w.make_chart(s, "ao1" if case.get("same_name") else "ao2", on_extra=on_other)
      chart._vf_key, other._vf_key = "ao1", "ao2"
      other.subscribe(Event(signal=signals["VC"]))
      other.start_at(fn2)
      def arm():
        for k, src in enumerate(case["sources"]):
          getattr(chart, "post_" + src["kind"])(Event(signal=signals[src.get("sig", "VB")], payload=k), period=src["period"],
                                                times=src["times"], deferred=src["deferred"])
      early = bool(case.get("arm_early")) and not case.get("never_started")
      if early:
        arm()                    # the usual "set everything up, then start" order
      if not case.get("never_started"):
        chart.start_at(fn)
      s.quiesce()
      t0 = s.now
      if not early:
        arm()
      armed = info.setdefault("armed", [])

      def armer():
        w.ao.time.sleep(max(t0 + case["stop_at"] - s.now, 0.0))
        for k in range(case.get("armer") or 0):
          a = {"id": 60 + k, "inv": s.steps, "ret": None}
          armed.append(a)
          try:
            chart.post_fifo(Event(signal=signals["VD"], payload=60 + k), period=0.5, times=0, deferred=(k == 0))
          except Exception as ex:
            a["raised"] = "%s: %s" % (type(ex).__name__, ex)
          a["ret"] = s.steps
      if case.get("armer") and not case.get("never_started"):
        w.ao.Thread(target=armer, name="armer").start()
      s.wake_at(t0 + case["stop_at"])
      if case.get("crash") and case["stop_from"] == "outside":
        # the object's thread ends on its own (a handler raised); stop() is still what cleans up
        chart.post_fifo(Event(signal=signals["VCRASH"], payload=0))
        s.quiesce()
      if case.get("slow_step"):
        # a handler that takes (virtual) time: stop() must wait for the step to finish
        chart.post_lifo(Event(signal=signals["VSLOW"], payload=case["slow_step"]))
        s.wake_at(s.now + case["slow_step"] / 2)
      for j in range(case["posts_before"]):
        chart.post_fifo(Event(signal=signals["VA"], payload=100 + j))
      in_step = sum(1 if r[0] == "enter" else -1 for r in rec.rtc if r[3] == "ao1") > 0
      info["in_step"] = in_step
      if case["stop_from"] == "outside":
        info["stop_inv"] = s.steps
        try:
          chart.stop()
        except Exception as ex:
          info["stop_raised"] = "%s: %s" % (type(ex).__name__, ex)
        info["stop_ret"] = s.steps
        info["stop_now"] = s.now
        info["alive_after"] = chart.thread is not None and chart.thread.is_alive()
      elif case["stop_from"] == "other_handler":
        other.post_fifo(Event(signal=signals["VSTOP"], payload=0))
      else:
        chart.post_fifo(Event(signal=signals["VSTOP"], payload=0))
      for j in range(case["posts_with_stop"]):
        chart.post_fifo(Event(signal=signals["VA"], payload=200 + j))
      s.sleep_until(t0 + case["stop_at"] + 3.0 + (case.get("slow_step") or 0.0))
      info["alive_end"] = chart.thread is not None and chart.thread.is_alive()
      # the rest of the system keeps working
      other.post_fifo(Event(signal=signals["VA"], payload=777))
      chart_pub = other
      chart_pub.publish(Event(signal=signals["VC"], payload=778))
      s.sleep_until(s.now + 0.01)
      info["fabric_alive"] = other.fabric.is_alive()
      info["other_alive"] = other.thread.is_alive()
      info["now_end"] = s.now

    try:
      s = w.run(body)
    except (detsched.Deadlock, detsched.StepLimit) as e:
      raise PropertyViolation("no quiescence: %s" % e, "C12:liveness")
    t_stop = case["stop_at"]
    fires = any(abs((t_stop / src["period"]) - round(t_stop / src["period"])) < 1e-9 and
                (t_stop > 0 or not src["deferred"]) for src in case["sources"])
    stats.case(case, bool(info.get("in_step")) or fires,
               ["stop_from_" + case["stop_from"], "sources_%d" % len(case["sources"]),
                "coincides_with_firing" if fires else "no_coincidence"])
    errs = [x for x in s.thread_errors if not isinstance(x[1], DeliberateCrash)]
    if errs:
      name, e, tb = errs[0]
      raise PropertyViolation("thread %s died: %s: %s" % (name, type(e).__name__, e), "C12:thread-error")
    bad = [a for a in info.get("armed", []) if a.get("raised")]
    if bad:
      raise PropertyViolation("a timed post made by another thread at the instant of the stop raised %s" % bad[0]["raised"],
                              "C12:stop-raises")
    if info.get("stop_raised"):
      raise PropertyViolation("stop() of an object %s raised %s" % (
        "that was never started" if case.get("never_started") else "that was running", info["stop_raised"]),
        "C12:stop-raises")
    if case["stop_from"] in ("outside", "other_handler"):
      if "stop_ret" not in info:
        raise PropertyViolation("the stop request sent to the other object was never carried out", "C12:setup")
      ret = info["stop_ret"]
      if info["alive_after"]:
        raise PropertyViolation("stop() returned but the object's thread is still alive", "C12:alive")
      late_rtc = [r for r in rec.rtc if r[3] == "ao1" and r[0] == "enter" and r[1] > ret]
      if late_rtc:
        raise PropertyViolation("a run-to-completion step started at step %d after stop() returned at %d" % (
          late_rtc[0][1], ret), "C12:step-after-stop")
      late = [p for p in rec.posts if p["ao"] == "ao1" and p["sig"] in ("VB", "VD", "VE") and p["inv"] > ret]
      # (a source that the other thread armed while stop() was under way, or after it, is the
      # user's own: only the ones whose arming had returned before stop() was called must be silent)
      free = set(a["id"] for a in info.get("armed", []) if a["ret"] is None or a["ret"] >= info["stop_inv"])
      late = [p for p in late if not (p["sig"] == "VD" and p["id"] in free)]
    else:
      if "handler_stop_ret" not in info:
        raise PropertyViolation("the stop request was never dispatched (dispatched %s)" % (
          [(d["sig"], d["id"]) for d in rec.dispatch if d["ao"] == "ao1"],), "C12:setup")
      if info["alive_end"]:
        raise PropertyViolation("stop() from a handler: the object's thread is still alive 3 s later", "C12:alive")
      ret = info["handler_stop_ret"]
      leave = min([r[1] for r in rec.rtc if r[3] == "ao1" and r[0] == "leave" and r[1] >= ret] or [None])
      more = [r for r in rec.rtc if r[3] == "ao1" and r[0] == "enter" and leave is not None and r[1] > leave]
      if more:
        raise PropertyViolation("stop() from a handler at step %d: another step started at %d" % (
          ret, more[0][1]), "C12:step-after-stop")
      late = [p for p in rec.posts if p["ao"] == "ao1" and p["sig"] in ("VB", "VD", "VE") and p["inv"] > ret]
      free = set(a["id"] for a in info.get("armed", []) if a["ret"] is None or a["ret"] >= info["handler_stop_inv"])
      late = [p for p in late if not (p["sig"] == "VD" and p["id"] in free)]
    if late:
      # the known check-then-post window: at most one stray post per source, at the very instant
      # at which stop() returned
      one_same_instant = len(set(p["id"] for p in late)) == len(late) and \
          all(abs(p["now"] - info.get("stop_now", -1.0)) < 1e-12 for p in late)
      bucket = "C12:check-then-post-window" if one_same_instant else "C12:source-keeps-posting"
      self.violation(stats, "timed source(s) posted after stop() returned at step %d: %s" % (
        ret, [(p["id"], p["inv"], p["now"]) for p in late]), bucket)
    got_other = [(d["sig"], d["id"]) for d in rec.dispatch if d["ao"] == "ao2"]
    if ("VA", 777) not in got_other or got_other.count(("VC", 778)) != 1:
      raise PropertyViolation("after stop() the other active object dispatched %s (expected its post 777 and "
                              "publication 778)" % (got_other,), "C12:others-affected")
    if not info["fabric_alive"] or not info["other_alive"]:
      raise PropertyViolation("after stop() fabric alive: %s, other object alive: %s" % (
        info["fabric_alive"], info["other_alive"]), "C12:others-affected")


PROP = C12
