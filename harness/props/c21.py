"""C21 - live spy/trace output emits every line once, in order, whatever the clock says."""
from hypothesis import strategies as st

from ..run import Prop
from ..common import PropertyViolation, HarnessBound
from .. import spytrace
from .c19 import first_diff

CLOCKS = ["fine", "coarse", "coarse_long", "constant", "backwards", "stepped_back", "erratic"]


class C21(Prop):
  id = "C21"
  quick_examples = 600
  thorough_examples = 5000
  rule = ("Hypothesis-generated histories on a decorated chart hosted on an instrumented "
          "HsmWithQueues with live_spy and/or live_trace on and harness callbacks registered (in half of the cases "
          "the spy callback reacts to entry/exit lines by scribbling on the chart), "
          "in half of the queued-host cases after 1-2 posts or deferrals made before start_at (the lines start_at shows in spy() in front of START are expected live too), under a generated clock substituted for datetime.now inside miros.hsm: strictly "
          "increasing, coarse (advances every 7th or 40th reading, so several steps share a "
          "timestamp), constant, running backwards, set back two seconds every fifth reading, or in no order at all. Oracle: the live-spy callback stream equals the concatenation "
          "of every step's spy log (as C19 computes it) and the live-trace callback stream equals "
          "one line per new trace record (as C20 computes it), each exactly once and in order. "
          "Non-trivial: live trace is on and >=2 transitions happened while the clock returned the same timestamp; "
          "distinct = distinct case digests. One case in three hosts the chart on a started ActiveObject "
          "under the deterministic scheduler, where the callbacks are invoked by the live-output "
          "writer thread; the same oracle applies after every settle.")
  assumptions = [
    "the clock is substituted by rebinding miros.hsm.stdlib_datetime to a datetime subclass",
    "a next_rtc on an empty queue dispatches nothing: its step log is the queue reflection line alone (a complete_circuit on an empty queue does nothing)",
  ]

  def strategy(self, tier):
    return st.tuples(spytrace.history(tier), st.sampled_from(CLOCKS),
                     st.sampled_from([(True, True), (True, False), (False, True)]),
                     st.sampled_from(["queued", "queued", "ao"]), st.booleans(),
                     st.sampled_from([[], [], [], ["post_fifo"], ["post_lifo", "post_fifo"], ["defer", "post_fifo"]])).map(
      lambda t: dict(t[0], clock=t[1], live=list(t[2]), host=t[3], reactive=t[4],
                     pre_posts=[[k, t[0]["spec"]["sigs"][0]] for k in t[5]]))

  def check(self, case, stats):
    if case.get("host") == "ao":
      return self.check_ao(case, stats)
    return self.check_run(case, stats, None)

  def check_ao(self, case, stats):
    """The same oracle with the chart hosted on a started ActiveObject: live output goes through
    the writer thread (run under the deterministic scheduler, round-robin)."""
    from .. import detsched
    if case.get("budget", 30) > 30:
      case = dict(case, budget=30, ops=[o for o in case["ops"] if o[0] != "bulk_post"])
    ao = detsched.install()
    detsched.reset(ao)
    files = detsched.miros_files()
    s = detsched.Scheduler(schedule=[], step_limit=3000000, trace_files=[files["activeobject"]])
    box = {}

    def body(sch):
      try:
        self.check_run(case, stats, "ao")
      except PropertyViolation as v:
        box["v"] = v
    try:
      detsched.guarded_run(s, body)
    except (detsched.Deadlock, detsched.StepLimit) as e:
      raise PropertyViolation("no quiescence with live output on an active object: %s" % e, "C21:liveness")
    if "v" in box:
      raise box["v"]
    if s.thread_errors:
      name, e, tb = s.thread_errors[0]
      raise PropertyViolation("thread %s died: %s: %s" % (name, type(e).__name__, e), "C21:thread-error")

  def check_run(self, case, stats, host):
    live_spy, live_trace = case["live"]
    run = spytrace.Run(case, live_spy=live_spy, live_trace=live_trace, clock=case["clock"], host=host,
                       reactive=bool(case.get("reactive")) and host is None)
    classes = ["clock_" + case["clock"], "host_" + (host or "queued")]
    try:
      try:
        pre = case.get("pre_posts") if host is None else None
        for op in pre or ():
          # posts and deferrals made before start_at (live output already on)
          run.model.external(op)
          run.real.apply(op)
        run.start()
        if pre:
          # whatever start_at puts into the spy in front of START is shown live as well
          full = run.real.chart.spy()
          if "START" in full:
            run.exp_live_spy[0:0] = full[:full.index("START")]
          classes.append("posts_before_start")
        self.compare(run, "start_at", live_spy, live_trace, stats)
        for idx, op in enumerate(case["ops"]):
          r = run.apply(op)
          if r is None:
            continue
          if r == "desync" or run.model.d.overflowed:
            stats.exclude("desync_actions_or_capacity")
            break
          if self.compare(run, "op %d %s" % (idx, op), live_spy, live_trace, stats) is False:
            break
      except spytrace.Desync:
        # the handlers' actions ran in another order / number than the model predicts (a chart
        # whose exit action queries the chart mid-transition, C01/C02 domain): not comparable
        stats.exclude("desync_actions_or_capacity")
      except HarnessBound as e:
        raise PropertyViolation("did not terminate: %s" % e, "C21:hang")
      except PropertyViolation:
        raise
      except Exception as e:
        raise PropertyViolation("raised %s: %s" % (type(e).__name__, e), "C21:raised")
    finally:
      run.close()
    ntrans = len(run.exp_live_trace) - 1
    same_ts = case["clock"] in ("constant", "coarse_long") or (case["clock"] == "coarse")
    nontrivial = live_trace and ntrans >= 2 and same_ts
    if ntrans >= 2:
      classes.append("two_or_more_transitions")
    stats.case(case, nontrivial, classes)

  def compare(self, run, where, live_spy, live_trace, stats):
    if live_spy:
      d = first_diff(run.spy_out, run.exp_live_spy)
      if d:
        raise PropertyViolation("%s: live spy callback line %d is %r, expected %r" % (
          (where,) + d), "C21:spy")
    if live_trace:
      got = []
      for chunk in run.trace_out:
        got.extend(spytrace.parse_trace(chunk))
      d = first_diff(got, run.exp_live_trace)
      if d:
        msg = "%s (clock %s): live trace callback record %d is %r, expected %r" % (
          (where, run.case["clock"]) + d)
        bucket = "C21:trace-suppressed-on-equal-timestamp" if d[1] is None else "C21:trace"
        return self.violation(stats, msg, bucket)
    return True


PROP = C21
