"""C25 - signal names and numbers form a stable one-to-one registry, even under threads."""
from hypothesis import strategies as st

from ..run import Prop
from ..common import PropertyViolation
from .. import detsched

BUILTIN = ["ENTRY_SIGNAL", "EXIT_SIGNAL", "INIT_SIGNAL", "REFLECTION_SIGNAL", "EMPTY_SIGNAL",
           "SEARCH_FOR_SUPER_SIGNAL", "STOP_FABRIC_SIGNAL", "STOP_ACTIVE_OBJECT_SIGNAL",
           "SUBSCRIBE_META_SIGNAL", "PUBLISH_META_SIGNAL"]
# names that spell a method or attribute of the registry object itself: legal signal names as long
# as they are not used through attribute access
METHODISH = ["keys", "items", "values", "update", "append", "get", "pop", "clear", "copy", "name_for_signal",
             "is_inner_signal", "highest_inner_signal", "move_to_end", "setdefault"]
ident = st.from_regex(r"[A-Za-z_][A-Za-z0-9_]{0,8}", fullmatch=True)
anyname = st.one_of(ident, ident, st.text(min_size=0, max_size=8), st.text(min_size=0, max_size=8),
                    st.sampled_from(BUILTIN), st.sampled_from(BUILTIN), st.sampled_from(METHODISH))


@st.composite
def registry_case(draw):
  mode = draw(st.sampled_from(["sequential", "concurrent", "concurrent"]))
  tag = draw(st.integers(0, 10 ** 6))
  if mode == "sequential":
    n = draw(st.integers(1, 12))
    ops = []
    for _ in range(n):
      k = draw(st.sampled_from(["append", "attr", "event_name", "event_number", "name_for", "is_inner",
                                "scratch_registry"]))
      ops.append([k, draw(ident if k == "attr" else anyname)])
    # "grow": the registry holds at least that many names before the case starts (numbers beyond
    # CPython's shared small integers, where equal numbers are no longer the same object)
    return {"mode": mode, "ops": ops, "tag": tag, "grow": draw(st.sampled_from([0, 0, 300]))}
  nthreads = draw(st.integers(2, 3))
  shared = draw(st.lists(ident, min_size=1, max_size=3))
  threads = []
  for _ in range(nthreads):
    n = draw(st.integers(1, 4))
    threads.append([[draw(st.sampled_from(["append", "attr", "event_name", "event_number", "name_for"])),
                     draw(st.one_of(st.sampled_from(shared), ident))] for _ in range(n)])
  fine = st.lists(st.tuples(st.integers(0, 5), st.integers(1, 15)), max_size=120)
  return {"mode": mode, "threads": threads, "tag": tag, "schedule": [list(x) for x in draw(fine)]}


def check_registry(signals, where, before):
  """The bindings made since `before` (a snapshot of the registry) are one-to-one, use positive
  numbers that no earlier name has, and no earlier binding changed.  (Only the bindings of this
  execution are judged: the registry is process-wide and never forgets, so a fault found in an
  earlier case must not be reported again by every later one.)"""
  for k, v in before.items():
    if signals.get(k) != v:
      raise PropertyViolation("%s: the number of %r changed from %r to %r" % (where, k, v, signals.get(k)),
                              "C25:number-changed")
  new = dict((k, v) for k, v in signals.items() if k not in before and not k.startswith("vf_pad_"))
  old_numbers = set(v for v in before.values() if v > 0)
  vals = list(new.values())
  clash = sorted(v for v in set(vals) if vals.count(v) > 1 or v in old_numbers)
  if clash:
    names = [k for k, v in signals.items() if v in clash]
    raise PropertyViolation("%s: signal numbers %s are bound to several names %s" % (where, clash, names),
                            "C25:not-one-to-one")
  if any((not isinstance(v, int)) or isinstance(v, bool) or v <= 0 for v in vals):
    raise PropertyViolation("%s: non-positive signal number in %s" % (where, vals[-5:]), "C25:number")


class C25(Prop):
  id = "C25"
  quick_examples = 500
  thorough_examples = 6000
  rule = ("Two generated families. Sequential: 1-12 operations on the process-wide registry from "
          "append(name), attribute access (identifier that is not already an attribute of the "
          "registry object), Event(name), Event(number), name_for_signal(number), "
          "is_inner_signal(name or number), and building and using a second private SignalSource object - numbers are handed over as fresh int objects equal to the "
          "registered one, and a third of the cases first grow the registry to 300 names so that "
          "numbers lie beyond the interpreter's shared small integers; names are identifiers, arbitrary text (including the "
          "empty string), the ten built-in names and names that spell a method of the registry object (keys, items, append, ...; never used through attribute access); model seeded from the live registry. "
          "Concurrent: 2-3 threads x 1-4 operations (append / attribute access / Event(name) "
          "registrations over shared and private fresh names, and Event(number) / name_for_signal "
          "uses of existing signals) under the deterministic scheduler with pre-emption "
          "at every BYTECODE of miros/event.py (run lengths 1-15). Oracle after every operation / "
          "at the end: names and numbers are one-to-one, numbers are positive and never change "
          "once seen (every number a thread observed is the final one), name_for_signal inverts "
          "the binding, exactly the ten built-ins are inner signals, Event(name).signal and "
          "Event(number).signal_name agree with the registry, and no operation raises. "
          "Non-trivial: a new name was registered through attribute access or Event (sequential), "
          "or two threads were inside a registration at once (concurrent); distinct = distinct "
          "case digests.")
  assumptions = ["every case makes its fresh names unique with a per-case tag, the registry itself is "
                 "never reset (it is process-wide by design)",
                 "Event(number) is only tried with registered numbers"]

  def strategy(self, tier):
    return registry_case()

  executions = 0

  def uniq(self, case, name):
    # fresh per EXECUTION (the registry is process-wide and never forgets), so that a case
    # re-run while shrinking or replaying starts from unregistered names again
    tag = "%dx%d" % (case["tag"], C25.executions)
    return name if name in BUILTIN or name in METHODISH else "%s_%s" % (name, tag) if name.isidentifier() else \
        "%s|%s" % (name, tag)

  def check(self, case, stats):
    C25.executions += 1
    # hygiene: a fault found by an earlier execution can leave the process-wide registry with a
    # number ahead of its size; pad it so that this execution starts from a consistent registry
    from miros.event import signals
    k = 0
    while len(signals) < max(signals.values()):
      k += 1
      signals["vf_pad_%d_%d" % (C25.executions, k)] = -len(signals) - 1000
    k = 0
    while len(signals) < case.get("grow", 0):
      k += 1
      signals.append("vf_grow_%d_%d" % (C25.executions, k))
    if case["mode"] == "sequential":
      return self.check_sequential(case, stats)
    return self.check_concurrent(case, stats)

  @staticmethod
  def model_add(model, name):
    # a fresh name gets a number no other name has (which one is the registry's business)
    if name not in model:
      model[name] = None

  def check_sequential(self, case, stats):
    from miros.event import signals, Event
    model = dict(signals)
    before = dict(model)
    newvia = set()
    for idx, (k, raw) in enumerate(case["ops"]):
      name = self.uniq(case, raw)
      where = "op %d %s(%r)" % (idx, k, name)
      try:
        if k == "append":
          signals.append(name)
          self.model_add(model, name)
        elif k == "attr":
          if name in dir(type(signals)) or name in vars(signals):
            continue
          v = getattr(signals, name)
          if name not in model:
            newvia.add("attr")
          self.model_add(model, name)
          if model[name] is None:
            model[name] = signals.get(name)
          if v != model[name]:
            raise PropertyViolation("%s gave %r, expected %r" % (where, v, model[name]), "C25:attr")
        elif k == "event_name":
          e = Event(signal=name)
          if name not in model:
            newvia.add("event")
          self.model_add(model, name)
          if model[name] is None:
            model[name] = signals.get(name)
          if e.signal != model[name] or e.signal_name != name:
            raise PropertyViolation("%s has signal %r / name %r, registry says %r" % (
              where, e.signal, e.signal_name, model[name]), "C25:event")
        elif k == "event_number":
          if name in model:
            # an equal number that is not the very object the registry holds (parsed, computed)
            e = Event(signal=int(str(model[name])))
            if e.signal != model[name] or e.signal_name != name:
              raise PropertyViolation("Event(%r) reports %r / %r, expected %r" % (
                model[name], e.signal, e.signal_name, name), "C25:event")
        elif k == "name_for":
          if name in model:
            got = signals.name_for_signal(int(str(model[name])))
            if got != name:
              raise PropertyViolation("name_for_signal(%r) gave %r, expected %r" % (model[name], got, name),
                                      "C25:name_for_signal")
        elif k == "scratch_registry":
          # a second, private registry object (the class is public; the library's own tests build
          # one): what it binds and answers must not leak into the process-wide registry
          from miros.event import SignalSource
          scratch = SignalSource()
          first = len(scratch) + 1
          for j in range(4):
            scratch.append("vf_scratch_%s_%d" % (name, j))
          for j in range(4):
            got = scratch.name_for_signal(first + j)
            if got != "vf_scratch_%s_%d" % (name, j):
              raise PropertyViolation("a private registry names its number %d %r" % (first + j, got),
                                      "C25:name_for_signal")
          # the numbers 11.. of the private registry are user signals of the process-wide one too
          for nm, num in list(signals.items())[10:16]:
            got = signals.name_for_signal(int(str(num)))
            if got != nm:
              raise PropertyViolation("after a private registry was used, name_for_signal(%r) of the process-wide "
                                      "registry gave %r, expected %r" % (num, got, nm), "C25:name_for_signal")
        elif k == "is_inner":
          for arg in (name, model.get(name)):
            if arg is None:
              continue
            got = signals.is_inner_signal(arg if isinstance(arg, str) else int(str(arg)))
            if bool(got) != (name in BUILTIN):
              raise PropertyViolation("is_inner_signal(%r) gave %r" % (arg, got), "C25:inner")
      except PropertyViolation:
        raise
      except Exception as e:
        raise PropertyViolation("%s raised %s: %s" % (where, type(e).__name__, e), "C25:raised")
      for n_ in model:
        if model[n_] is None:
          model[n_] = signals.get(n_)
      if dict(signals) != model:
        diff = [(n, signals.get(n), model.get(n)) for n in set(signals) | set(model)
                if signals.get(n) != model.get(n)]
        raise PropertyViolation("%s: registry differs from the model: %s" % (where, diff[:4]), "C25:binding")
      check_registry(signals, where, before)
    # inner-signal classification over the built-ins, the oldest user signal and this case's names
    names = list(signals.keys())
    probe = BUILTIN + names[10:11] + [n for n in names if n not in before][:6]
    for n in probe:
      for arg in (n, signals[n]):
        got = signals.is_inner_signal(arg)
        if bool(got) != (n in BUILTIN):
          raise PropertyViolation("is_inner_signal(%r) gave %r (%r is %sa built-in signal)" % (
            arg, got, n, "" if n in BUILTIN else "not "), "C25:inner")
    stats.case(case, bool(newvia), ["sequential", "registry_over_256" if len(before) > 256 else "registry_small"] +
               ["new_via_" + v for v in sorted(newvia)])

  def check_concurrent(self, case, stats):
    ao = detsched.install()
    detsched.reset(ao)
    from miros.event import signals, Event
    files = detsched.miros_files()
    before = dict(signals)
    observed = []          # (name, number) as seen by the registering thread
    info = {"inside": 0}

    def body(s):
      def worker(ops):
        for k, raw in ops:
          name = self.uniq(case, raw)
          if k == "append":
            signals.append(name)
            observed.append((name, signals[name]))
          elif k == "attr":
            if name in dir(type(signals)) or name in vars(signals):
              continue
            observed.append((name, getattr(signals, name)))
          elif k == "event_number":
            # USING signals while others register: an event made from a number that is
            # already bound (a built-in) must report that number's name
            e = Event(signal=signals.INIT_SIGNAL)
            if e.signal_name != "INIT_SIGNAL" or e.signal != signals.INIT_SIGNAL:
              observed.append(("!name", ("INIT_SIGNAL", e.signal_name)))
          elif k == "name_for":
            if signals.name_for_signal(signals.EXIT_SIGNAL) != "EXIT_SIGNAL":
              observed.append(("!name", ("EXIT_SIGNAL", signals.name_for_signal(signals.EXIT_SIGNAL))))
          else:
            e = Event(signal=name)
            observed.append((name, e.signal))
            if e.signal_name != name:
              observed.append(("!name", (name, e.signal_name)))
      ths = [ao.Thread(target=worker, args=(ops,), name="w%d" % k) for k, ops in enumerate(case["threads"])]

      def on_switch(prev, nxt):
        import sys
        inside = 0
        for t in s.threads:
          if t.name.startswith("w") and t.real is not None and not t.finished:
            f = sys._current_frames().get(t.real.ident)
            while f is not None:
              if f.f_code.co_filename == files["event"]:
                inside += 1
                break
              f = f.f_back
        if inside >= 2:
          info["inside"] += 1
      s.on_switch = on_switch
      for t in ths:
        t.start()
      for t in ths:
        t.join()
      # one more registration after the race: it must not collide with anything
      probe = self.uniq(case, "vfprobe")
      signals.append(probe)
      observed.append((probe, signals[probe]))

    s = detsched.Scheduler(schedule=case["schedule"], step_limit=600000, opcodes=True,
                           trace_files=[files["event"]])
    try:
      detsched.guarded_run(s, body)
    except (detsched.Deadlock, detsched.StepLimit) as e:
      raise PropertyViolation("no termination: %s" % e, "C25:liveness")
    stats.case(case, info["inside"] > 0, ["concurrent", "two_inside_registration" if info["inside"] else "never_two_inside"])
    if s.thread_errors:
      name, e, tb = s.thread_errors[0]
      raise PropertyViolation("thread %s died: %s: %s" % (name, type(e).__name__, e), "C25:raised")
    try:
      check_registry(signals, "after concurrent registration", before)
      for name, num in observed:
        if name == "!name":
          raise PropertyViolation("Event(%r) reported the name %r" % num, "C25:event")
        if signals.get(name) != num:
          raise PropertyViolation("a thread saw %r bound to %r, the registry now says %r" % (
            name, num, signals.get(name)), "C25:number-changed")
    except PropertyViolation:
      raise


PROP = C25
