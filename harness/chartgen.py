"""Chart generator: Hypothesis strategies for chart specs and a builder that turns a
spec into real miros state handlers (closures in this file, hand-written style).

NOTE: miros decides whether a chart is instrumented with a regex search for the
decorator's name in str(fn.__code__), which contains the *file path* and function
name.  Nothing in this file (path, function names) may contain that name.
"""
from hypothesis import strategies as st

from .common import HarnessBound

SIGS = ["VA", "VB", "VC", "VD", "VE", "VF"]
HANDLER_CALL_LIMIT = 200000
TOP_CALL_LIMIT = 20000


NAMES = None     # names of the chart built last, when its spec gives explicit (possibly repeated) names


def state_name(i):
  if NAMES is not None and 0 <= i < len(NAMES):
    return NAMES[i]
  return "vs%d" % i


# --------------------------------------------------------------------------
# strategies
# --------------------------------------------------------------------------
@st.composite
def tree(draw, max_states=12):
  n = draw(st.integers(1, max_states))
  parent = [-1]
  for i in range(1, n):
    parent.append(draw(st.one_of(st.just(i - 1), st.integers(-1, i - 1))))
  return parent


def descendants(parent, i):
  out = []
  for j in range(i + 1, len(parent)):
    p = parent[j]
    while p != -1 and p != i:
      p = parent[p]
    if p == i:
      out.append(j)
  return out


@st.composite
def chart_spec(draw, max_states=12, max_sigs=4, with_guards=True, with_actions=False,
               spy=None):
  parent = draw(tree(max_states))
  n = len(parent)
  nsig = draw(st.integers(1, max_sigs))
  sigs = SIGS[:nsig]
  init = []
  for i in range(n):
    ds = descendants(parent, i)
    if ds and draw(st.integers(0, 2)) > 0:
      # prefer the nearest descendants so that long init chains are common
      init.append(draw(st.one_of(st.just(ds[0]), st.sampled_from(ds))))
    else:
      init.append(None)
  react = []
  kinds = ["pass", "pass", "handle", "trans", "trans", "trans", "decline"]
  if with_guards:
    kinds.append("guard")
  if draw(st.booleans()):
    # sparse charts: most states name their parent, so events bubble several levels
    kinds = kinds + ["pass"] * 8
  for i in range(n):
    r = {}
    for s in sigs:
      k = draw(st.sampled_from(kinds))
      if k == "handle":
        r[s] = ["handle"]
      elif k == "decline":
        r[s] = ["decline"]
      elif k == "trans":
        r[s] = ["trans", draw(st.integers(0, n - 1))]
      elif k == "guard":
        r[s] = ["guard", draw(st.integers(2, 3)), draw(st.integers(0, n - 1))]
    react.append(r)
  flags = lambda: [draw(st.integers(0, 7)) > 0 for _ in range(n)]
  spec = {
    "n": n, "parent": parent, "init": init, "react": react, "sigs": sigs,
    "entry": flags(), "exit": flags(), "initc": flags(),
    "spy": draw(st.booleans()) if spy is None else spy,
    "acts": {},
    # how the state functions are written: module-level style functions, or methods of a helper
    # object (every mention of such a state - self.vs3 - makes a NEW bound-method object)
    "style": draw(st.sampled_from(["function", "function", "function", "bound"])),
  }
  if with_actions:
    spec["acts"] = draw(actions_for(spec))
  return spec


ACTION_KINDS = ["post_fifo", "post_lifo", "defer", "defer_e", "recall", "scribble"]


@st.composite
def actions_for(draw, spec, kinds=None, max_sites=6, min_sites=0):
  """Handler-side actions attached to clauses.  Keys "i:ENTRY", "i:VA", ..."""
  kinds = kinds or ACTION_KINDS
  n = spec["n"]
  acts = {}
  nsites = draw(st.integers(min_sites, max_sites))
  for _ in range(nsites):
    i = draw(st.integers(0, n - 1))
    keys = []
    if spec["entry"][i]:
      keys.append("ENTRY")
    if spec["exit"][i]:
      keys.append("EXIT")
    if spec["initc"][i] or spec["init"][i] is not None:
      keys.append("INIT")
    keys.extend(s for s in spec["sigs"] if s in spec["react"][i])
    if not keys:
      continue
    key = "%d:%s" % (i, draw(st.sampled_from(keys)))
    lst = acts.setdefault(key, [])
    k = draw(st.sampled_from(kinds))
    if k in ("post_fifo", "post_lifo", "defer"):
      lst.append([k, draw(st.sampled_from(spec["sigs"]))])
    elif k == "defer_e":
      if key.split(":")[1] in ("ENTRY", "EXIT", "INIT"):
        lst.append(["defer", draw(st.sampled_from(spec["sigs"]))])
      else:
        lst.append([k])
    elif k == "scribble":
      # notes are free text: indentation, trailing blanks and line breaks are the author's business
      lst.append([k, draw(st.sampled_from(["note0", "note1", "note2", "note3", "note  two blanks", "    note indented",
                                           "note trailing   ", "note line end\n", "note\ttab", "note   "]))])
    elif k == "is_in":
      lst.append([k, draw(st.integers(0, n - 1))])
    else:
      lst.append([k])
  return acts


@st.composite
def guard_queries(draw, spec, max_sites=3):
  """Guards that consult chart.is_in() before answering: an "is_in" action on
  user-signal clauses (the clause's own outcome is unchanged)."""
  acts = {}
  for _ in range(draw(st.integers(0, max_sites))):
    i = draw(st.integers(0, spec["n"] - 1))
    keys = [s for s in spec["sigs"] if s in spec["react"][i]]
    if keys:
      acts.setdefault("%d:%s" % (i, draw(st.sampled_from(keys))), []).append(
        ["is_in", draw(st.integers(0, spec["n"] - 1))])
  return acts


@st.composite
def chart_case(draw, max_events=12, with_is_in=False, with_queries=False, **kw):
  spec = draw(chart_spec(**kw))
  if with_is_in:
    spec["acts"] = draw(guard_queries(spec))
  start = draw(st.integers(0, spec["n"] - 1))
  nev = draw(st.integers(0, max_events))
  events = draw(st.lists(st.sampled_from(spec["sigs"]), min_size=nev, max_size=nev))
  case = {"spec": spec, "start": start, "events": events}
  if with_queries:
    qs = {}
    for k in range(nev):
      if draw(st.integers(0, 3)) == 0:
        qs[str(k)] = [[draw(st.sampled_from(["is_in", "child_state"])),
                       draw(st.integers(-1, spec["n"] - 1))]
                      for _ in range(draw(st.integers(1, 2)))]
    case["queries"] = qs
  return case


def basic_action(rt, chart, e, i, key, a):
  """Default handler-side action executor: only the side-effect-free query."""
  if a[0] == "is_in":
    chart.is_in(rt.fns[a[1]])
  elif a[0] == "start_other":
    # an action that builds and starts ANOTHER chart object of the same class (a chart that owns
    # a helper chart): the two charts share nothing
    spec2 = {"n": 3, "parent": [-1, 0, 1], "init": [None, None, None], "react": [{}, {}, {}], "sigs": ["VA"],
             "entry": [True] * 3, "exit": [True] * 3, "initc": [False] * 3, "spy": bool(rt.spec.get("spy")),
             "acts": {}}
    saved = NAMES
    rt2 = build(spec2, decorate=bool(rt.spec.get("spy")))
    globals()["NAMES"] = saved
    other = type(chart)()
    other.start_at(rt2.fns[2])
    if [x for x in rt2.log if x[0] in ("ENTRY", "EXIT", "INIT")] != [("ENTRY", 0), ("ENTRY", 1), ("ENTRY", 2)] or \
       other.state_name != "vs2":
      rt.side_failures.append("a second chart started from inside an action ran %s and rests in %s, expected "
                              "ENTRY 0, 1, 2 and vs2" % (rt2.log, other.state_name))


# --------------------------------------------------------------------------
# runtime: turn a spec into handlers
# --------------------------------------------------------------------------
class Runtime:
  """Holds the handlers of one built chart and everything they record.
  (side_failures: what went wrong in things an action did on the side.)

  log      clause executions: ("ENTRY"|"EXIT"|"INIT", i) only when the state has that
           clause; ("SIG", i, sig, outcome) for every user-signal offer that reaches a
           clause (outcome handle|trans|decline)
  offers   (i, sig) for every invocation with a user signal, in order
  raw      (when keep_raw) the invocation stream: ("call", signal_name, i),
           ("act", kind, detail) for handler-side actions, ("ret", signal_name, i, status,
           is_user_signal); REFLECTION excluded
  """

  def __init__(self, spec, on_action=None, budget=30):
    self.spec = spec
    self.log = []
    self.side_failures = []
    self.offers = []
    self.raw = []
    self.calls = 0
    self.counters = {}
    self.fns = []
    self.inner = []
    self.on_action = on_action
    self.budget = budget
    self.keep_raw = False
    self.offer_payloads = []     # payload of each event at its first offer of a step
    self.actlog = []             # what handler-side actions did, in order
    self.ids = None              # shared id counter (list of one int) for posted events

  def clear(self):
    del self.log[:]
    del self.offers[:]
    del self.raw[:]
    del self.offer_payloads[:]
    del self.actlog[:]


def build(spec, decorate=None, on_action=None, budget=30, methods_ok=False):
  """Build real handlers.  `decorate` overrides spec["spy"].  With methods_ok the caller promises
  to call rt.attach(chart) when the runtime has one (decorated states written as methods of the
  chart's own class)."""
  from miros.event import signals, return_status
  from miros.hsm import spy_on as deco

  global NAMES
  NAMES = list(spec["names"]) if spec.get("names") else None
  rt = Runtime(spec, on_action or basic_action, budget)
  if decorate is None:
    decorate = spec.get("spy", False)
  parent, init, react = spec["parent"], spec["init"], spec["react"]
  has_entry, has_exit, has_initc = spec["entry"], spec["exit"], spec["initc"]
  acts = spec.get("acts") or {}
  ENTRY, EXIT, INIT = signals.ENTRY_SIGNAL, signals.EXIT_SIGNAL, signals.INIT_SIGNAL
  REFL = signals.REFLECTION_SIGNAL
  SEARCH = signals.SEARCH_FOR_SUPER_SIGNAL
  faults = spec.get("faults") or None
  initnone = spec.get("initnone") or None
  signums = {}
  for s in spec["sigs"]:
    signals.append(s)
    signums[signals[s]] = s
  HANDLED, UNHANDLED, SUPER = return_status.HANDLED, return_status.UNHANDLED, return_status.SUPER
  fns = rt.fns

  def run_actions(i, key, chart, e):
    lst = acts.get("%d:%s" % (i, key))
    if lst and rt.on_action is not None:
      for a in lst:
        rt.on_action(rt, chart, e, i, key, a)

  def body(i, chart, e):
    rt.calls += 1
    if rt.calls > HANDLER_CALL_LIMIT:
      raise HarnessBound("handler call bound exceeded")
    sig = e.signal
    status = None
    if rt.keep_raw and sig != REFL:
      rt.raw.append(("call", e.signal_name, i))
    if faults:
      f = faults.get(str(i))
      if f == "none_exit" and sig == EXIT:
        return None                      # malformed: no status for the exit event (C24)
      if f == "none_empty" and sig == signals.EMPTY_SIGNAL:
        return None                      # malformed: no status for the re-query after a declined event (C24)
      if f in ("none_search", "none_search_set") and sig == SEARCH:
        if f == "none_search_set":
          p = parent[i]
          chart.temp.fun = chart.top if p == -1 else fns[p]
        return None                      # malformed: no status for the super-state probe (C24)
    if sig == ENTRY:
      if has_entry[i]:
        rt.log.append(("ENTRY", i))
        run_actions(i, "ENTRY", chart, e)
        status = HANDLED
    elif sig == EXIT:
      if has_exit[i]:
        rt.log.append(("EXIT", i))
        run_actions(i, "EXIT", chart, e)
        status = HANDLED
    elif sig == INIT:
      if init[i] is not None:
        rt.log.append(("INIT", i))
        run_actions(i, "INIT", chart, e)
        status = chart.trans(fns[init[i]])
      elif has_initc[i]:
        rt.log.append(("INIT", i))
        run_actions(i, "INIT", chart, e)
        if initnone and initnone[i]:
          # a side-effect-only init action that forgets its status: "no initial transition"
          if rt.keep_raw:
            rt.raw.append(("ret", e.signal_name, i, None, False))
          return None
        status = HANDLED
    elif sig in signums:
      name = signums[sig]
      rt.offers.append((i, name))
      rt.offer_payloads.append(e.payload)
      r = react[i].get(name)
      if r is not None:
        k = r[0]
        if k == "guard":
          c = rt.counters.get((i, name), 0)
          rt.counters[(i, name)] = c + 1
          k = "trans" if c % r[1] == 0 else "decline"
          tgt = r[2]
        elif k == "trans":
          tgt = r[1]
        rt.log.append(("SIG", i, name, k))
        run_actions(i, name, chart, e)
        if k == "none":
          return None          # malformed handler: no status for an offered event (C24)
        if k == "handle":
          status = HANDLED
        elif k == "ignore":
          status = return_status.IGNORED      # "I have seen it, drop it": ends the search like HANDLED
        elif k == "decline":
          status = UNHANDLED
        else:
          status = chart.trans(fns[tgt])
    if status is None:
      if faults and faults.get(str(i)) == "none_else":
        # malformed: the handler has no 'else' clause - it names no parent and returns no status
        # for anything it has no clause for (C24)
        if rt.keep_raw and sig != REFL:
          rt.raw.append(("ret", e.signal_name, i, None, sig in signums))
        return None
      p = parent[i]
      chart.temp.fun = chart.top if p == -1 else fns[p]
      status = SUPER
    if rt.keep_raw and sig != REFL:
      rt.raw.append(("ret", e.signal_name, i, status, sig in signums))
    return status

  def make(i):
    def handler(chart, e):
      return body(i, chart, e)
    handler.__name__ = state_name(i)
    handler.__qualname__ = state_name(i)
    return handler

  if methods_ok and spec.get("style") == "bound" and decorate is True and not spec.get("names"):
    # decorated state functions written as METHODS OF THE CHART'S CLASS (transitions name their
    # targets as self.<state>): every mention makes a new bound-method object
    methods = {}
    for i in range(spec["n"]):
      h = make(i)
      rt.inner.append(h)

      def as_state_method(self_, e, _h=h):
        return _h(self_, e)
      as_state_method.__name__ = as_state_method.__qualname__ = state_name(i)
      methods[state_name(i)] = deco(as_state_method)
    late = FreshBound(None, [state_name(i) for i in range(spec["n"])])
    rt.fns = fns = late

    def attach(chart):
      chart.__class__ = type(chart.__class__.__name__, (chart.__class__,), methods)
      late.holder = chart
    rt.attach = attach
    return rt
  if spec.get("style") == "bound" and not decorate and not spec.get("names"):
    # undecorated state functions written as methods of a helper object
    class VfStates:
      pass
    holder = VfStates()
    for i in range(spec["n"]):
      h = make(i)
      rt.inner.append(h)

      def as_method(self_, chart, e, _h=h):
        return _h(chart, e)
      as_method.__name__ = as_method.__qualname__ = state_name(i)
      setattr(VfStates, state_name(i), as_method)
    rt.fns = fns = FreshBound(holder, [state_name(i) for i in range(spec["n"])])
    return rt
  for i in range(spec["n"]):
    h = make(i)
    rt.inner.append(h)
    if decorate == "other":
      fns.append(passthrough(h))
    elif decorate in ("mixed_even", "mixed_odd"):
      # a chart on which some state functions wear the decorator and some do not
      fns.append(deco(h) if (i % 2 == 0) == (decorate == "mixed_even") else h)
    else:
      fns.append(deco(h) if decorate else h)
  return rt


class FreshBound:
  """A list-like view of a helper object's state methods: every access makes a new bound method,
  as `self.vs3` does in user code."""

  def __init__(self, holder, names):
    self.holder, self.names = holder, names

  def __getitem__(self, i):
    return getattr(self.holder, self.names[i])

  def __len__(self):
    return len(self.names)

  def __iter__(self):
    return (self[i] for i in range(len(self.names)))


def passthrough(fn):
  """A user decorator that is not the instrumentation decorator (functools.wraps style)."""
  import functools

  @functools.wraps(fn)
  def counted(chart, e):
    counted.calls += 1
    return fn(chart, e)
  counted.calls = 0
  return counted


def bounded(cls):
  """Subclass of a miros processor whose top() counts calls (hang backstop)."""
  class Bounded(cls):
    _vf_top_calls = 0

    def top(self, *args):
      self._vf_top_calls += 1
      if self._vf_top_calls > TOP_CALL_LIMIT:
        raise HarnessBound("top() call bound exceeded")
      return super().top(*args)
  if hasattr(cls, "signal_callback"):
    # charts assembled from templates never pass through the generated handlers: count the
    # look-ups their state methods make, so that a search that goes round in circles is cut short
    from contextlib import contextmanager

    @contextmanager
    def signal_callback(self, e, name):
      self._vf_lookups = getattr(self, "_vf_lookups", 0) + 1
      if self._vf_lookups > 30000:
        raise HarnessBound("callback look-up bound exceeded")
      with cls.signal_callback(self, e, name) as fn:
        yield fn
    Bounded.signal_callback = signal_callback
  Bounded.__name__ = "Bounded" + cls.__name__
  return Bounded
