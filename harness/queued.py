"""Histories on queued charts (HsmWithQueues): generated operation lists, the real
executor and the model (reference chart model + model deque).  Shared by C14, C15,
C16, C19, C20, C21."""
from hypothesis import strategies as st

from . import chartgen, hsmcheck
from .common import HarnessBound
from .refmodel import Model, ModelDeque

CAP = 500


@st.composite
def history(draw, kinds=("post_fifo", "post_lifo", "next_rtc", "complete_circuit"),
            action_kinds=("post_fifo", "post_lifo"), max_ops=25, max_states=8, spy=None,
            bulk=False, pre=False):
  spec = draw(chartgen.chart_spec(max_states=max_states, max_sigs=3, spy=spy))
  spec["acts"] = draw(chartgen.actions_for(spec, kinds=list(action_kinds), min_sites=1))
  start = draw(st.integers(0, spec["n"] - 1))
  ops = []
  nops = draw(st.integers(0, max_ops))
  for k in draw(st.lists(st.sampled_from(kinds), min_size=nops, max_size=nops)):
    if k == "query":
      ops.append([draw(st.sampled_from(["is_in", "child_state"])), draw(st.integers(-1, spec["n"] - 1))])
    elif k in ("post_fifo", "post_lifo", "defer"):
      if ops and draw(st.integers(0, 5)) == 0:
        ops.append([k + "_same"])          # the same Event object as the last one made
      else:
        ops.append([k, draw(st.sampled_from(spec["sigs"]))])
    else:
      ops.append([k])
  case = {"spec": spec, "start": start, "ops": ops}
  if pre:
    # operations made before the chart is started (posting/deferring to a not yet started chart)
    pk = [k for k in ("post_fifo", "post_lifo", "defer", "recall") if k in kinds]
    case["pre_ops"] = [[draw(st.sampled_from(pk)), draw(st.sampled_from(spec["sigs"]))]
                       for _ in range(draw(st.integers(0, 3)))] if pk else []
    case["pre_ops"] = [[o[0]] if o[0] == "recall" else o for o in case["pre_ops"]]
    # live output switched on (to harness callbacks): it must not get in the way of the queues
    case["live"] = draw(st.sampled_from([None, None, None, "spy", "trace", "both"]))
  if bulk and draw(st.integers(0, 7)) == 0:
    # long circuits: hundreds of queued events whose handlers post follow-ups
    case["budget"] = draw(st.sampled_from([280, 400, 700]))
    at = draw(st.integers(0, len(ops)))
    ops.insert(at, ["bulk_post", draw(st.sampled_from(spec["sigs"])), draw(st.sampled_from([255, 300, 350]))])
    ops.append(["complete_circuit"])
  return case


class BoundedModelDeque(ModelDeque):
  """The model deque at capacity: a queued chart's queue is a bounded collections.deque, so a
  post to a full queue drops the event at the OTHER end (used by the at-capacity cases of C15)."""

  def post_fifo(self, x):
    if len(self.q) >= self.cap:
      self.q.pop(0)
    self.q.append(x)
    return True

  def post_lifo(self, x):
    if len(self.q) >= self.cap:
      self.q.pop()
    self.q.insert(0, x)
    return True


class QModel:
  """Model of a queued chart: reference chart model + bounded deque + defer list.

  Events are (id, sig).  Mirrors the handler-side actions in clause order."""

  def __init__(self, spec, budget, bounded=False):
    self.spec = spec
    self.m = Model(spec)
    self.d = BoundedModelDeque(CAP) if bounded else ModelDeque(CAP)
    self.budget = budget
    self.next_id = 0
    self.acts = spec.get("acts") or {}
    self.actlog = []
    self.last = None

  def new_id(self):
    self.next_id += 1
    return self.next_id

  def clause_exists(self, x):
    k, i = x[0], x[1]
    if k == "ENTRY":
      return self.spec["entry"][i]
    if k == "EXIT":
      return self.spec["exit"][i]
    if k == "INIT":
      return self.spec["initc"][i] or self.spec["init"][i] is not None
    return True

  def run_actions(self, seq, cur_event):
    for x in seq:
      if not self.clause_exists(x):
        continue
      key = "%d:%s" % (x[1], x[2] if x[0] == "SIG" else x[0])
      for a in self.acts.get(key, ()):
        self.action(a, cur_event)

  def action(self, a, cur_event):
    k = a[0]
    if k in ("post_fifo", "post_lifo", "defer"):
      if self.budget <= 0:
        return
      self.budget -= 1
      ev = (self.new_id(), a[1])
      getattr(self.d, k)(ev)
      self.actlog.append((k, ev[0]))
    elif k == "defer_e":
      if self.budget <= 0:
        return
      self.budget -= 1
      self.d.defer(cur_event)
      self.actlog.append(("defer", cur_event[0]))
    elif k == "recall":
      if self.budget <= 0:
        return
      self.budget -= 1
      r = self.d.recall()
      self.actlog.append(("recall", r[0] if r else None))
    elif k == "scribble":
      self.actlog.append(("scribble", a[1]))

  def start(self, s):
    seq = self.m.start(s)
    self.run_actions(seq, None)
    return seq

  def external(self, op):
    """Mirror an operation made from outside the chart (not next_rtc/complete_circuit)."""
    k = op[0]
    if k in ("post_fifo", "post_lifo", "defer"):
      self.last = (self.new_id(), op[1])
      getattr(self.d, k)(self.last)
    elif k.endswith("_same"):
      if self.last is not None:
        getattr(self.d, k[:-5])(self.last)
    elif k == "bulk_post":
      for _ in range(op[2]):
        self.d.post_fifo((self.new_id(), op[1]))
    elif k == "bulk_defer":
      for _ in range(op[2]):
        self.d.defer((self.new_id(), op[1]))

  def next_rtc(self):
    """Returns None if the queue is empty, else (event, step result)."""
    ev = self.d.pop()
    if ev is None:
      return None
    res = self.m.step(ev[1])
    self.run_actions(res["seq"], ev)
    return ev, res


def handler_action(rt, chart, e, i, key, a):
  """Real counterpart of QModel.action, called from inside state handlers."""
  from miros.event import Event, signals
  k = a[0]
  if k in ("post_fifo", "post_lifo", "defer"):
    if rt.budget <= 0:
      return
    rt.budget -= 1
    rt.ids[0] += 1
    ev = Event(signal=signals[a[1]], payload=rt.ids[0])
    getattr(chart, k)(ev)
    rt.actlog.append((k, rt.ids[0]))
    if rt.keep_raw:
      rt.raw.append(("act", k, a[1]))
  elif k == "defer_e":
    if rt.budget <= 0:
      return
    rt.budget -= 1
    chart.defer(e)
    rt.actlog.append(("defer", e.payload))
    if rt.keep_raw:
      rt.raw.append(("act", "defer", e.signal_name))
  elif k == "recall":
    if rt.budget <= 0:
      return
    rt.budget -= 1
    r = chart.recall()
    rt.recalled.append(r)
    rt.actlog.append(("recall", r.payload if r is not None else None))
    if rt.keep_raw:
      rt.raw.append(("act", "recall", r.signal_name if r is not None else None))
  elif k == "scribble":
    chart.scribble(a[1])
    rt.actlog.append(("scribble", a[1]))
    if rt.keep_raw:
      rt.raw.append(("act", "scribble", a[1]))
  elif k == "is_in":
    chart.is_in(rt.fns[a[1]])
  elif k == "current_state":
    chart.current_state()
  elif k in ("clear_spy", "clear_trace"):
    # a handler that empties the accumulated log while its step is running
    getattr(chart, k)()
    if rt.keep_raw:
      rt.raw.append(("act", k, None))


class Observed:
  """What one real operation showed."""
  __slots__ = ("op", "dispatched", "log", "state", "ret", "actlog", "extra")

  def __init__(self, op):
    self.op = op
    self.dispatched = []   # payload ids in dispatch order (first offer of each step)
    self.log = []
    self.state = None
    self.ret = None
    self.actlog = []
    self.extra = {}


class RealQueued:
  """Drives a real HsmWithQueues through a history, recording per-op observations."""

  def __init__(self, case, budget=30, instrumented=True, decorate=None, setup=None, host=None):
    from miros.event import Event, signals
    self.Event, self.signals = Event, signals
    self.case = case
    spec = case["spec"]
    self.rt = chartgen.build(spec, decorate=decorate, on_action=handler_action, budget=budget, methods_ok=True)
    self.rt.ids = [0]
    self.rt.recalled = []
    self.events = {}       # id -> Event object posted from outside
    self.host = host
    if host == "ao":
      # a started active object (must be created inside a detsched run)
      import miros.activeobject as ao_mod
      self.chart = chartgen.bounded(ao_mod.ActiveObject)(name="vfao")
    else:
      self.chart = hsmcheck.make_host("queued" if instrumented else "queued_off")
    if hasattr(self.rt, "attach"):
      self.rt.attach(self.chart)       # the states are methods of this chart's own class
    if setup is not None:
      setup(self.chart, self.rt)
    # every step's first offer identifies the dispatched event; a step boundary is a
    # call of dispatch, which we observe by wrapping it on the instance
    self.steps = []
    self.last_event = None
    real_dispatch = self.chart.dispatch

    def dispatch(e):
      self.steps.append(e)
      return real_dispatch(e)
    self.chart.dispatch = dispatch

  def new_event(self, sig):
    self.rt.ids[0] += 1
    e = self.Event(signal=self.signals[sig], payload=self.rt.ids[0])
    self.events[self.rt.ids[0]] = e
    return e

  def start(self):
    o = Observed(["start_at", self.case["start"]])
    self.chart.start_at(self.rt.fns[self.case["start"]])
    if self.host == "ao":
      from .detsched import sched
      sched().quiesce()
    self._collect(o)
    return o

  def _collect(self, o):
    o.extra["raw"] = list(self.rt.raw)
    o.log = list(self.rt.log)
    o.actlog = list(self.rt.actlog)
    o.dispatched = [e.payload for e in self.steps]
    o.state = getattr(self.chart, "state_name", None)     # not set before start_at
    self.rt.clear()
    del self.steps[:]

  def apply(self, op):
    o = Observed(op)
    k = op[0]
    c = self.chart
    if k in ("post_fifo", "post_lifo", "defer"):
      e = self.new_event(op[1])
      self.last_event = e
      o.extra["id"] = e.payload
      o.ret = getattr(c, k)(e)
    elif k.endswith("_same"):
      if self.last_event is not None:
        o.ret = getattr(c, k[:-5])(self.last_event)
    elif k == "bulk_post":
      for _ in range(op[2]):
        c.post_fifo(self.new_event(op[1]))
    elif k == "bulk_defer":
      for _ in range(op[2]):
        c.defer(self.new_event(op[1]))
    elif k in ("is_in", "child_state"):
      # a read-only query made from outside, between steps
      o.ret = hsmcheck.run_query(c, self.rt, op)
      self.rt.clear()
      return o
    elif k == "recall":
      r = c.recall()
      o.ret = r
      o.extra["recalled"] = r.payload if r is not None else None
      o.extra["identity"] = (r is None) or (self.events.get(r.payload) is r) or (r.payload not in self.events)
    elif k in ("clear_spy", "clear_trace"):
      getattr(c, k)()
    elif k == "next_rtc":
      o.ret = c.next_rtc()
    elif k == "complete_circuit":
      o.ret = c.complete_circuit()
    else:
      raise ValueError(k)
    if self.host == "ao":
      from .detsched import sched
      sched().quiesce()
    self._collect(o)
    return o
