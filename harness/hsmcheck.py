"""Run a generated chart on a real miros processor and compare it, step by step,
with the reference model.  Shared by C01, C02, C03 (and reused by others)."""
from .common import HarnessBound
from .refmodel import Model, TOP
from . import chartgen

STRUCT = ("ENTRY", "EXIT", "INIT")


def make_host(kind):
  from miros.hsm import HsmEventProcessor, InstrumentedHsmEventProcessor, HsmWithQueues
  if kind == "plain":
    return chartgen.bounded(HsmEventProcessor)()
  if kind == "instr":
    return chartgen.bounded(InstrumentedHsmEventProcessor)()
  if kind == "queued":
    return chartgen.bounded(HsmWithQueues)()
  if kind == "queued_off":
    return chartgen.bounded(HsmWithQueues)(instrumented=False)
  raise ValueError(kind)


def visible(spec, seq):
  """The part of a model clause sequence that is observable as handler actions:
  ENTRY/EXIT/INIT only for states that have that clause."""
  out = []
  for x in seq:
    if x[0] == "ENTRY" and spec["entry"][x[1]]:
      out.append((x[0], x[1]))
    elif x[0] == "EXIT" and spec["exit"][x[1]]:
      out.append((x[0], x[1]))
    elif x[0] == "INIT" and (spec["initc"][x[1]] or spec["init"][x[1]] is not None):
      out.append((x[0], x[1]))
  return out


def structural(log):
  return [(x[0], x[1]) for x in log if x[0] in STRUCT]


def name_of(i):
  return "top" if i == TOP else chartgen.state_name(i)


def fmt(seq):
  return " ".join("%s:%s" % (k[0], name_of(k[1])) for k in seq)


class StepReport:
  """Outcome of comparing one real step with the model."""
  __slots__ = ("index", "sig", "res", "aspect", "msg")

  def __init__(self, index, sig, res, aspect=None, msg=None):
    self.index, self.sig, self.res, self.aspect, self.msg = index, sig, res, aspect, msg


def run_case(case, host_kind=None, decorate=None, on_step=None):
  """Generator-free driver.  Returns (reports, start_report, model, rt, chart).

  reports: one StepReport per executed event; the first report with aspect != None
  ends the run (the real chart and the model can no longer be compared).
  Aspects: "start" (C03), "order" (C01: exits/entries/inits of a transition, resting
  state), "bubble" (C02: offers, and nothing happens on handled/ignored),
  "error" (exception or call bound).
  """
  from miros.event import Event, signals
  spec = case["spec"]
  host_kind = host_kind or case.get("host", "instr")
  rt = chartgen.build(spec, decorate=decorate)
  model = Model(spec)
  chart = make_host(host_kind)
  exp = model.start(case["start"])
  start = StepReport(-1, None, {"seq": exp, "to": model.cur})
  try:
    chart.start_at(rt.fns[case["start"]])
  except HarnessBound as e:
    start.aspect, start.msg = "error", "start_at did not terminate: %s" % e
    return [], start, model, rt, chart
  except Exception as e:
    start.aspect, start.msg = "error", "start_at raised %s: %s" % (type(e).__name__, e)
    return [], start, model, rt, chart
  got = structural(rt.log)
  want = visible(spec, exp)
  if got != want:
    start.aspect = "start"
    start.msg = "start_at(%s): actions [%s], expected [%s]" % (
      name_of(case["start"]), fmt(got), fmt(want))
  elif chart.state_name != name_of(model.cur):
    start.aspect = "start"
    start.msg = "start_at(%s): rests in %s, expected %s" % (
      name_of(case["start"]), chart.state_name, name_of(model.cur))
  reports = []
  if start.aspect:
    return reports, start, model, rt, chart
  queries = case.get("queries") or {}
  for idx, sig in enumerate(case["events"]):
    for q in queries.get(str(idx), ()):
      run_query(chart, rt, q)
    rt.clear()
    res = model.step(sig)
    rep = StepReport(idx, sig, res)
    reports.append(rep)
    try:
      chart.dispatch(Event(signal=signals[sig]))
    except HarnessBound as e:
      rep.aspect, rep.msg = "error", "dispatch(%s) from %s did not terminate: %s" % (
        sig, name_of(res["from"]), e)
      break
    except Exception as e:
      rep.aspect, rep.msg = "error", "dispatch(%s) from %s raised %s: %s" % (
        sig, name_of(res["from"]), type(e).__name__, e)
      break
    offers = [i for i, _ in rt.offers]
    want_offers = [i for i, _ in res["offers"]]
    got = structural(rt.log)
    want = visible(spec, res["seq"])
    where = "event %d (%s) in %s" % (idx, sig, name_of(res["from"]))
    if offers != want_offers:
      rep.aspect = "bubble"
      rep.msg = "%s: offered to [%s], expected [%s]" % (
        where, " ".join(name_of(i) for i in offers), " ".join(name_of(i) for i in want_offers))
    elif res["kind"] != "trans":
      if got:
        rep.aspect = "bubble"
        rep.msg = "%s: %s event ran actions [%s]" % (where, res["kind"], fmt(got))
      elif chart.state_name != name_of(res["from"]):
        rep.aspect = "bubble"
        rep.msg = "%s: %s event moved the chart to %s" % (where, res["kind"], chart.state_name)
    else:
      if got != want:
        rep.aspect = "order"
        rep.msg = "%s: %s->%s ran [%s], expected [%s]" % (
          where, name_of(res["S"]), name_of(res["T"]), fmt(got), fmt(want))
      elif chart.state_name != name_of(res["to"]):
        rep.aspect = "order"
        rep.msg = "%s: %s->%s rests in %s, expected %s" % (
          where, name_of(res["S"]), name_of(res["T"]), chart.state_name, name_of(res["to"]))
    if on_step is not None and rep.aspect is None:
      on_step(rep, model, rt, chart)
    if rep.aspect:
      break
  return reports, start, model, rt, chart


def run_query(chart, rt, q):
  """Between-step query; returns ("ok", value) or ("raised", type name)."""
  fn = chart.top if q[1] == TOP else rt.fns[q[1]]
  if len(q) > 2 and q[2] == "twin" and q[1] != TOP:
    fn = rt.twin_fns[q[1]]        # another chart's state function that answers to the same name
  try:
    if q[0] == "is_in":
      return ("ok", bool(chart.is_in(fn)))
    r = chart.child_state(fn)
    for i, f in enumerate(rt.fns):
      if r == f:
        return ("ok", i)
    return ("ok", "top" if r == chart.top else repr(r))
  except HarnessBound:
    raise
  except Exception as e:
    return ("raised", type(e).__name__)


def small_forests(max_n):
  """All parent vectors (forests under top) with 1..max_n states, parent[i] < i."""
  import itertools
  for n in range(1, max_n + 1):
    for ps in itertools.product(*[range(-1, i) for i in range(1, n)]):
      yield [-1] + list(ps)
